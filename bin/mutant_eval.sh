#!/bin/bash
# usage: mutant_eval.sh <id> <srcdir> [checks...]      e.g.  mutant_eval.sh C07-3 /tmp/mut/C07/OUT/1 C07 C14
#                                                           mutant_eval.sh C07-1 /verif/seeded/C07-1 C07
# Evaluates a seeded change (patch.diff + demonstration in <srcdir>) in a scratch worktree: suite still
# passes, demonstration fails with / passes without the change, and which of our checks flag it.
id=$1; src=$2; shift 2
prop=${id%%-*}
checks="$@"; [ -z "$checks" ] && checks=$prop
wt=/tmp/mw/$id
res=/tmp/mw/results/$id.txt
mkdir -p /tmp/mw/results
export GOPROXY=off GOSUMDB=off GOTOOLCHAIN=local; unset GOFLAGS
git -C /repo worktree remove --force $wt 2>/dev/null
git -C /repo worktree add -q --detach $wt HEAD || exit 2
{
echo "== $id ($src)"
cd $wt
if git apply $src/patch.diff 2>/dev/null; then echo "apply: ok"; elif git apply -3 $src/patch.diff 2>/dev/null; then echo "apply: ok (3-way)"; else echo "apply: FAILED"; fi
git diff --stat | tail -1
if go build ./... 2>&1 | tail -3; then :; fi
# SKIP_VERIFY=1: regression of an already verified change (apply + checks only)
if [ -z "$SKIP_VERIFY" ]; then
# existing suite with the change (private network namespace: fixed ports)
suite=$(unshare -n sh -c "ip link set lo up; cd $wt && go test -json -vet=off -count=1 -p 1 -timeout 20m ./... 2>&1" | python3 -c "
import json,sys
base=set(json.load(open('/root/.vp/BASELINE.json'))['stable_pass'])
res={}
for l in sys.stdin:
    try: e=json.loads(l)
    except Exception: continue
    if e.get('Test') and e.get('Action') in('pass','fail','skip'): res[e['Package']+'::'+e['Test']]=e['Action']
bad=[t for t in base if res.get(t)!='pass']
print('suite: %d/%d baseline tests pass'%(len(base)-len(bad),len(base)), bad[:3])
")
echo "$suite"
# demonstration
demo=$(ls $src/*_test.go $src/*_test.go.txt 2>/dev/null | head -1)
if [ -n "$demo" ]; then
  pkg=$(grep -m1 '^package ' $demo | awk '{print $2}')
  case $pkg in
    redis) dir=redis;; proto) dir=redis/proto;; glob) dir=redis/glob;; auth) dir=redis/auth;; server) dir=examples/go-redisd/server;; redistest) dir=redistest;; redis_test) dir=redis;; proto_test) dir=redis/proto;; server_test) dir=examples/go-redisd/server;; *) dir=redis;;
  esac
  tests=$(grep -o '^func Test[A-Za-z0-9_]*' $demo | awk '{print $2}' | paste -sd'|')
  race=""; [ "$prop" = C14 ] && race="-race"
  cp $demo $wt/$dir/zz_seeded_demo_test.go
  out=$(unshare -n sh -c "ip link set lo up; cd $wt && timeout 300 go test $race -vet=off -count=1 -run '^($tests)\$' ./$dir/ 2>&1" | tail -3 | tr '\n' ' ')
  echo "demo with change (expect FAIL): $out" | cut -c1-300
  git stash -q -- . ':!*/zz_seeded_demo_test.go' 2>/dev/null || git checkout -q -- .
  git checkout -q -- . 2>/dev/null
  cp $demo $wt/$dir/zz_seeded_demo_test.go
  out=$(unshare -n sh -c "ip link set lo up; cd $wt && timeout 300 go test $race -vet=off -count=1 -run '^($tests)\$' ./$dir/ 2>&1" | tail -2 | tr '\n' ' ')
  echo "demo without change (expect ok): $out" | cut -c1-300
  rm -f $wt/$dir/zz_seeded_demo_test.go
  git stash drop -q 2>/dev/null
  git checkout -q -- .
  git apply $src/patch.diff 2>/dev/null || git apply -3 $src/patch.diff 2>/dev/null
else
  echo "demo: no test file found"
fi
fi
cd /verif
for c in $checks; do
  t0=$(date +%s)
  out=$(VERIF_EVIDENCE_DIR=/tmp/mw/evidence timeout 2400 ./bin/symgo check -prop $c -tier quick -repo $wt -verif /verif 2>&1)
  code=$?
  echo "check $c: exit=$code ($(( $(date +%s)-t0 ))s) $(echo "$out" | grep -m2 -E 'VIOLATION|INCONCLUSIVE' | cut -c1-260 | tr '\n' ' ')"
done
} > $res 2>&1
git -C /repo worktree remove --force $wt 2>/dev/null
cat $res
