#!/bin/sh
# Builds the symbolic executor from the sources in /verif/engine (offline; x/tools v0.29.0 from the module cache).
cd "$(dirname "$0")/../engine" || exit 1
export GOFLAGS=-mod=mod GOPROXY=off GOSUMDB=off GOTOOLCHAIN=local
go build -o ../bin/symgo ./cmd/symgo
