#!/usr/bin/env python3
"""Runs /repo's test suite (verif tag OFF) and checks that every test of BASELINE.json's stable_pass set passes."""
import json, subprocess, sys, os
env = dict(os.environ, GOPROXY="off", GOSUMDB="off", GOTOOLCHAIN="local")
env.pop("GOFLAGS", None)
base = json.load(open("/root/.vp/BASELINE.json"))
want = set(base["stable_pass"])
p = subprocess.run(["go", "test", "-json", "-vet=off", "-count=1", "-timeout", "25m", "./..."], cwd="/repo", env=env, capture_output=True, text=True)
res = {}
for line in p.stdout.splitlines():
    try:
        ev = json.loads(line)
    except Exception:
        continue
    if ev.get("Test") and ev.get("Action") in ("pass", "fail", "skip"):
        res[ev["Package"] + "::" + ev["Test"]] = ev["Action"]
missing = sorted(t for t in want if res.get(t) != "pass")
print("baseline tests: %d wanted, %d passing, %d not passing" % (len(want), len(want) - len(missing), len(missing)))
for t in missing[:20]:
    print("  NOT PASSING:", t, res.get(t))
sys.exit(1 if missing else 0)
