#!/usr/bin/env python3
"""Stores a verified seeded change under /verif/seeded/<id>/ from a sub-agent's output directory
and the result file written by bin/mutant_eval.sh.
usage: seed_store.py <prop> <n-in-OUT> <new-id> <caught_by,comma> <change> -- <needs> -- <history>"""
import json, os, shutil, sys, glob
prop, n, newid, caught = sys.argv[1:5]
rest = ' '.join(sys.argv[5:]).split(' -- ')
change, needs, history = (rest + ['', '', ''])[:3]
src = f'/tmp/mut/{prop}/OUT/{n}'
dst = f'/verif/seeded/{newid}'
os.makedirs(dst, exist_ok=True)
shutil.copy(f'{src}/patch.diff', f'{dst}/patch.diff')
if os.path.exists(f'{src}/README.md'):
    shutil.copy(f'{src}/README.md', f'{dst}/README.md')
for t in glob.glob(f'{src}/*_test.go'):
    shutil.copy(t, f'{dst}/zz_demo_{newid.lower().replace("-", "_")}_test.go.txt')
res = f'/tmp/mw/results/{newid}.txt'
if not os.path.exists(res):
    res = f'/tmp/mw/results/{prop}-{n}.txt'
last = [l.rstrip('\n')[:420] for l in open(res) if l.startswith(('apply', 'suite', 'demo', 'check'))]
meta = {
    'id': newid, 'property': prop, 'round': 2, 'change': change, 'needs_to_manifest': needs,
    'caught_by_checks': [c for c in caught.split(',') if c],
    'detection_history': history,
    'verified': {'method': 'bin/mutant_eval.sh: patch applied in a scratch worktree of /repo HEAD; existing suite run in a private network namespace and compared with BASELINE.json stable_pass; demonstration run with and without the change; then the quick check(s) with -repo <worktree>', 'last_run': last},
    'demonstration': '*_test.go.txt (renamed so that it is not compiled here): copy into the package directory named in README.md as *_test.go and run go test -run <its tests>',
}
json.dump(meta, open(f'{dst}/meta.json', 'w'), indent=1)
print('stored', dst)
