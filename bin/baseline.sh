#!/bin/sh
# Runs the repository's own test suite with the verif build tag OFF (default build).
export GOPROXY=off GOSUMDB=off GOTOOLCHAIN=local
unset GOFLAGS
cd /repo && exec go test -vet=off -count=1 -timeout 25m ./... "$@"
