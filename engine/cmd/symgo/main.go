package main

import (
	"encoding/json"
	"flag"
	"fmt"
	"os"
	"runtime/pprof"
	"sort"
	"strings"
	"time"

	"verif/engine/runner"
	"verif/engine/sym"
)

type kvFlag map[string]string

func (k kvFlag) String() string { return fmt.Sprint(map[string]string(k)) }
func (k kvFlag) Set(s string) error {
	i := strings.IndexByte(s, '=')
	if i < 0 {
		return fmt.Errorf("want k=v")
	}
	k[s[:i]] = s[i+1:]
	return nil
}

func main() {
	if len(os.Args) < 2 {
		fmt.Fprintln(os.Stderr, "usage: symgo job|check ...")
		os.Exit(2)
	}
	switch os.Args[1] {
	case "job":
		os.Exit(cmdJob(os.Args[2:]))
	case "check":
		os.Exit(runner.CmdCheck(os.Args[2:]))
	case "replay":
		os.Exit(runner.CmdReplay(os.Args[2:]))
	default:
		fmt.Fprintln(os.Stderr, "unknown command")
		os.Exit(2)
	}
}

func cmdJob(args []string) int {
	fs := flag.NewFlagSet("job", flag.ExitOnError)
	repo := fs.String("repo", "/repo", "repository")
	verif := fs.String("verif", "/verif", "verif dir")
	hname := fs.String("h", "proto", "harness set (proto|redis|auth|server)")
	fn := fs.String("fn", "", "harness function")
	solver := fs.String("solver", "z3-new", "solver")
	maxPaths := fs.Int("maxpaths", 0, "")
	unwind := fs.Int("unwind", 0, "")
	timeout := fs.Duration("timeout", 10*time.Minute, "")
	replay := fs.Bool("replay", false, "replay findings natively")
	verbose := fs.Bool("v", false, "")
	cpuprof := fs.String("cpuprofile", "", "")
	params := kvFlag{}
	fs.Var(params, "p", "param k=v")
	fs.Parse(args)

	if *cpuprof != "" {
		f, _ := os.Create(*cpuprof)
		pprof.StartCPUProfile(f)
		defer pprof.StopCPUProfile()
	}
	st, err := runner.Stage(*verif, *repo)
	if err != nil {
		fmt.Fprintln(os.Stderr, err)
		return 2
	}
	defer st.Cleanup()
	t0 := time.Now()
	ld, err := st.Load()
	if err != nil {
		fmt.Fprintln(os.Stderr, err)
		return 2
	}
	fmt.Fprintf(os.Stderr, "loaded in %v\n", time.Since(t0))
	cfg := sym.JobConfig{Harness: *fn, Pkg: runner.PkgPath(*hname), Params: params, MaxPaths: *maxPaths, Unwind: *unwind, Timeout: *timeout, Overrides: map[string]string{"net.Listen": "vnetListen"}}
	m, err := sym.NewMachine(ld, cfg, *solver)
	if err != nil {
		fmt.Fprintln(os.Stderr, err)
		return 2
	}
	defer m.Close()
	res := m.Run()
	sym.DumpProfile()
	fmt.Printf("paths=%d ends=%v decisions=%d steps=%d wall=%v\n", res.Paths, res.PathsByEnd, res.Decisions, res.Steps, res.Wall)
	fmt.Printf("solver: queries=%d sat=%d unsat=%d unknown=%d time=%v max=%v\n", res.Solver.Queries, res.Solver.Sat, res.Solver.Unsat, res.Solver.Unknown, res.Solver.Time, res.Solver.MaxQuery)
	fmt.Printf("asserts: queries=%d unsat=%d sat=%d nontrivial-paths=%d\n", res.AssertQueries, res.AssertUnsat, res.AssertSat, res.NontrivPaths)
	fmt.Printf("covers=%v cuts=%v\n", res.Covers, res.Cuts)
	for _, s := range res.Inconclusive {
		fmt.Println("INCONCLUSIVE:", s)
	}
	for _, s := range res.Samples {
		fmt.Println("sample:", s)
	}
	if *verbose {
		var fns []string
		for f := range res.Funcs {
			fns = append(fns, f)
		}
		sort.Strings(fns)
		fmt.Println("functions:", fns)
		var ins []string
		for f := range res.Intrinsics {
			ins = append(ins, f)
		}
		sort.Strings(ins)
		fmt.Println("intrinsics:", ins)
	}
	for i, f := range res.Findings {
		b, _ := json.Marshal(f.Replay)
		fmt.Printf("FINDING %d: %s %s site=%s msg=%s tags=%v\n   input=%s\n", i, f.Kind, f.ID, f.Site, f.Msg, f.Tags, runner.RenderVector(f.Replay))
		if *verbose {
			fmt.Printf("   vector=%s\n   stack=%v\n", b, f.Stack)
		}
		if *replay {
			out, err := st.Replay(*hname, f, 20*time.Second)
			fmt.Printf("   replay: %s err=%v\n", out.Summary(), err)
		}
	}
	return 0
}
