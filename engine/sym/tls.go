package sym

func registerTLSIntrinsics() {}
