package sym

import (
	"go/types"

	"golang.org/x/tools/go/ssa"
)

// crypto/tls is not interpreted: a *tls.Conn is an opaque wrapper around the inner (scripted)
// connection. Handshake outcome and connection state come from harness functions
// vtlsHandshake(inner net.Conn) error and vtlsState(inner net.Conn) tls.ConnectionState.

type tlsObj struct {
	inner *IfaceV
}

func (g *G) tlsOf(v Value) *tlsObj {
	c := recvCell(g, v)
	o, _ := c.Ext.(*tlsObj)
	if o == nil {
		g.m.unsupported("method call on a *tls.Conn that was not created by tls.Server")
	}
	return o
}

func (g *G) harnessFunc(name string) *ssa.Function {
	pkg := g.m.ld.PkgByPath[g.m.cfg.Pkg]
	if pkg == nil {
		return nil
	}
	return pkg.Func(name)
}

func (g *G) invokeOn(iv *IfaceV, method string, args ...Value) Value {
	if iv == nil {
		g.throw("nil-deref", "invalid memory address or nil pointer dereference")
	}
	fn := g.hasMethod(iv.T, method)
	if fn == nil {
		g.m.unsupported("no method %s on %v", method, iv.T)
	}
	return g.call(fn, append([]Value{iv.V}, args...), nil)
}

func registerTLSIntrinsics() {
	intrinsics["crypto/tls.Server"] = func(g *G, fn *ssa.Function, args []Value) Value {
		m := g.m
		t := m.namedType("crypto/tls", "Conn")
		cell := &Cell{T: t, Kids: nil}
		inner, _ := args[0].(*IfaceV)
		cell.Ext = &tlsObj{inner: inner}
		cell.V = nil
		m.res.Intrinsics["crypto/tls.* (opaque wrapper; handshake outcome chosen by the harness)"] = true
		return cell
	}
	intrinsics["(*crypto/tls.Conn).Handshake"] = func(g *G, fn *ssa.Function, args []Value) Value {
		o := g.tlsOf(args[0])
		if hf := g.harnessFunc("vtlsHandshake"); hf != nil {
			return g.call(hf, []Value{o.inner}, nil)
		}
		return (*IfaceV)(nil)
	}
	intrinsics["(*crypto/tls.Conn).HandshakeContext"] = func(g *G, fn *ssa.Function, args []Value) Value {
		o := g.tlsOf(args[0])
		if hf := g.harnessFunc("vtlsHandshake"); hf != nil {
			return g.call(hf, []Value{o.inner}, nil)
		}
		return (*IfaceV)(nil)
	}
	intrinsics["(*crypto/tls.Conn).ConnectionState"] = func(g *G, fn *ssa.Function, args []Value) Value {
		o := g.tlsOf(args[0])
		if hf := g.harnessFunc("vtlsState"); hf != nil {
			return g.call(hf, []Value{o.inner}, nil)
		}
		return g.m.zero(fn.Signature.Results().At(0).Type())
	}
	for _, meth := range []string{"Read", "Write", "Close", "LocalAddr", "RemoteAddr", "SetDeadline", "SetReadDeadline", "SetWriteDeadline"} {
		meth := meth
		intrinsics["(*crypto/tls.Conn)."+meth] = func(g *G, fn *ssa.Function, args []Value) Value {
			o := g.tlsOf(args[0])
			return g.invokeOn(o.inner, meth, args[1:]...)
		}
	}
	intrinsics["(*crypto/tls.Conn).NetConn"] = func(g *G, fn *ssa.Function, args []Value) Value {
		return g.tlsOf(args[0]).inner
	}
}

var _ = types.Typ

func init() {
	intrinsics["crypto/tls.X509KeyPair"] = func(g *G, fn *ssa.Function, args []Value) Value {
		res := fn.Signature.Results()
		if g.m.choose("x509keypair-ok", 2) == 0 {
			return Tuple{g.m.zero(res.At(0).Type()), (*IfaceV)(nil)}
		}
		return Tuple{g.m.zero(res.At(0).Type()), g.m.errorsNew(g.m.strConst("tls: failed to find any PEM data"))}
	}
	intrinsics["crypto/x509.NewCertPool"] = func(g *G, fn *ssa.Function, args []Value) Value {
		cell := &Cell{T: g.m.namedType("crypto/x509", "CertPool")}
		cell.Ext = &certPoolObj{}
		return cell
	}
	intrinsics["(*crypto/x509.CertPool).AppendCertsFromPEM"] = func(g *G, fn *ssa.Function, args []Value) Value {
		c := recvCell(g, args[0])
		if o, ok := c.Ext.(*certPoolObj); ok {
			o.pems = append(o.pems, g.byteSeq(args[1]))
		}
		return g.m.ctx.True
	}
	intrinsics["os.ReadFile"] = func(g *G, fn *ssa.Function, args []Value) Value {
		if g.m.choose("readfile-ok", 2) == 0 {
			return Tuple{g.m.bytesToSlice(g.m.strConst("file-contents").b), (*IfaceV)(nil)}
		}
		return Tuple{(*SliceV)(nil), g.m.errorsNew(g.m.strConst("open: no such file or directory"))}
	}
}

type certPoolObj struct{ pems [][]*Term }
