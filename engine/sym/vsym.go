package sym

import (
	"fmt"
	"go/types"
	"strconv"
	"strings"

	"golang.org/x/tools/go/ssa"
)

func (g *G) argStr(v Value) string {
	s, ok := v.(*StrV)
	if !ok {
		g.m.unsupported("vsym: expected constant string argument")
	}
	cs, ok := concreteString(s)
	if !ok {
		g.m.unsupported("vsym: expected constant string argument")
	}
	return cs
}

func (g *G) argInt(v Value) int {
	t := g.m.simp(v.(*Term))
	if !t.IsConst() {
		g.m.unsupported("vsym: expected constant int argument")
	}
	return int(t.SVal())
}

// nextFixed returns the next value of the fixed replay vector in concrete mode.
func (m *Machine) nextFixed(kind, name string) (ReplayEntry, bool) {
	if m.cfg.FixedVector == nil {
		return ReplayEntry{}, false
	}
	if m.fixedPos >= len(m.cfg.FixedVector) {
		// vector exhausted: zeros
		m.fixedPos++
		return ReplayEntry{Kind: kind, Name: name}, true
	}
	e := m.cfg.FixedVector[m.fixedPos]
	m.fixedPos++
	return e, true
}

func (m *Machine) newVar(kind, name string, sort Sort, w int) *Term {
	if e, ok := m.nextFixed(kind, name); ok {
		var t *Term
		switch sort {
		case SBool:
			t = m.ctx.Bool(e.Val != 0)
		case SBV:
			t = m.ctx.BV(w, uint64(e.Val))
		default:
			t = m.ctx.mk(&Term{Op: OConst, Sort: SFP, Val: e.U})
		}
		m.nondet = append(m.nondet, ReplayEntry{Kind: kind, Name: name, Val: e.Val, U: e.U})
		return t
	}
	vn := fmt.Sprintf("%s!%d", name, len(m.nondet))
	t := m.ctx.Var(vn, sort, w)
	m.nondet = append(m.nondet, ReplayEntry{Kind: kind, Name: name, term: t})
	return t
}

func (m *Machine) newChoice(name string, n int) int {
	if e, ok := m.nextFixed("choice", name); ok {
		v := int(e.Val)
		if v < 0 || v >= n {
			v = 0
		}
		m.nondet = append(m.nondet, ReplayEntry{Kind: "choice", Name: name, Val: int64(v)})
		return v
	}
	v := m.choose("choice:"+name, n)
	m.nondet = append(m.nondet, ReplayEntry{Kind: "choice", Name: name, Val: int64(v)})
	return v
}

func (g *G) tryVsym(fn *ssa.Function, args []Value) (Value, bool) {
	name := fn.Name()
	if !strings.HasPrefix(name, "vsym") || fn.Pkg == nil {
		return nil, false
	}
	m := g.m
	c := m.ctx
	switch name {
	case "vsymByte":
		return m.newVar("byte", g.argStr(args[0]), SBV, 8), true
	case "vsymInt":
		return m.newVar("int", g.argStr(args[0]), SBV, 64), true
	case "vsymIntN":
		bits := g.argInt(args[1])
		v := m.newVar("int", g.argStr(args[0]), SBV, bits)
		return c.Sext(v, 64), true
	case "vsymUintN":
		bits := g.argInt(args[1])
		v := m.newVar("int", g.argStr(args[0]), SBV, bits)
		return c.Zext(v, 64), true
	case "vsymBool":
		return m.newVar("bool", g.argStr(args[0]), SBool, 0), true
	case "vsymFloat":
		return m.newVar("float", g.argStr(args[0]), SFP, 0), true
	case "vsymBytes", "vsymString":
		nm := g.argStr(args[0])
		n := g.argInt(args[1])
		bs := make([]*Term, n)
		for i := range bs {
			bs[i] = m.newVar("byte", nm, SBV, 8)
		}
		if name == "vsymString" {
			return &StrV{b: bs}, true
		}
		return m.bytesToSlice(bs), true
	case "vsymChoice":
		return c.BV(64, uint64(m.newChoice(g.argStr(args[0]), g.argInt(args[1])))), true
	case "vsymLen":
		// any length 0..max
		return c.BV(64, uint64(m.newChoice(g.argStr(args[0]), g.argInt(args[1])+1))), true
	case "vsymAssume":
		cond := m.simp(args[0].(*Term))
		m.res.Assumes++
		if cond.IsTrue() {
			return nil, true
		}
		if cond.IsFalse() || !m.feasible(cond) {
			panic(pathEnd{"assume", "vsymAssume"})
		}
		m.addPC(cond)
		return nil, true
	case "vsymAssert":
		id := g.argStr(args[1])
		if m.cfg.Twin && id == m.cfg.Params["twin"] {
			m.assert(c.False, id, g.siteOfModule())
			return nil, true
		}
		m.assert(args[0].(*Term), id, g.siteOfModule())
		return nil, true
	case "vsymFail":
		m.assert(c.False, g.argStr(args[0]), g.siteOfModule())
		return nil, true
	case "vsymCover":
		m.covers[g.argStr(args[0])] = true
		return nil, true
	case "vsymTag":
		m.tags[g.argStr(args[0])] = g.argStr(args[1])
		return nil, true
	case "vsymNoPanic":
		m.noPanic = true
		return nil, true
	case "vsymUnwind":
		m.unwind = g.argInt(args[0])
		return nil, true
	case "vsymAllocCap":
		m.allocCap = int64(g.argInt(args[0]))
		return nil, true
	case "vsymParam":
		return m.strConst(m.cfg.Params[g.argStr(args[0])]), true
	case "vsymParamInt":
		def := g.argInt(args[1])
		if s, ok := m.cfg.Params[g.argStr(args[0])]; ok {
			if n, err := strconv.Atoi(s); err == nil {
				def = n
			}
		}
		return c.BV(64, uint64(def)), true
	case "vsymConcreteInt":
		// fork over the feasible values of a small-domain int
		t := args[0].(*Term)
		lo, hi := g.argInt(args[1]), g.argInt(args[2])
		v := m.concretizeInt("vsymConcreteInt", t, int64(lo), int64(hi))
		return c.BV(64, uint64(v)), true
	case "vsymEnd":
		panic(pathEnd{"done", "vsymEnd"})
	case "vsymIsReplay":
		return c.False, true
	case "vsymLog":
		return nil, true
	case "vsymYield":
		g.yield("yield")
		return nil, true
	case "vsymAwait":
		cell := args[0].(*Cell)
		g.await(cell)
		return nil, true
	case "vsymQuiesce":
		g.quiesce()
		return nil, true
	case "vsymSignal":
		cell := args[0].(*Cell)
		m.store(cell, c.True)
		g.syncRelease(cell)
		g.yield("signal")
		return nil, true
	case "vsymFlag":
		cell := args[0].(*Cell)
		g.yield("flag")
		if cell.sh != nil {
			g.acquire(cell.sh.syncVC)
		}
		return m.load(cell), true
	case "vsymSyncWrite":
		// marks a write to a synchronisation flag cell (release)
		g.syncRelease(args[0].(*Cell))
		return nil, true
	case "vsymGoroutines":
		return c.BV(64, uint64(g.liveGoroutines())), true
	case "vsymSchedBound":
		g.m.setPreemptBound(g.argInt(args[0]))
		return nil, true
	case "vsymSchedKinds":
		g.m.setSchedKinds(g.argStr(args[0]))
		return nil, true
	case "vsymRaceDetect":
		g.m.enableRace()
		return nil, true
	case "vsymByteSliceOf":
		// converts a string to []byte without copy semantics relevance
		s := args[0].(*StrV)
		return m.bytesToSlice(append([]*Term{}, s.Bytes()...)), true
	}
	m.unsupported("unknown vsym primitive %s", name)
	return nil, true
}

var _ = types.Typ
