package sym

import (
	"fmt"
	"go/types"
	"math"
	"net"
	"regexp"
	"strconv"
	"strings"

	"golang.org/x/tools/go/ssa"
)

type intrinsic func(g *G, fn *ssa.Function, args []Value) Value

var intrinsics map[string]intrinsic

func init() {
	intrinsics = map[string]intrinsic{
		"fmt.Errorf":                    inFmtErrorf,
		"fmt.Sprintf":                   inFmtSprintf,
		"fmt.Sprint":                    inFmtSprint,
		"errors.Is":                     inErrorsIs,
		"errors.As":                     inErrorsAs,
		"(*errors.joinError).Error":     inJoinErrorError,
		"strconv.Itoa":                  inItoa,
		"strconv.FormatInt":             inFormatInt,
		"strconv.ParseFloat":            inParseFloat,
		"strconv.FormatFloat":           inFormatFloat,
		"strconv.Quote":                 inQuote,
		"strings.ToUpper":               inToUpper,
		"strings.ToLower":               inToLower,
		"strings.ReplaceAll":            inReplaceAll,
		"strings.Join":                  inJoin,
		"strings.Clone":                 inIdentity,
		"internal/stringslite.Clone":    inIdentity,
		"strings.EqualFold":             inEqualFold,
		"internal/bytealg.MakeNoZero":   inMakeNoZero,
		"internal/bytealg.IndexByte":    inIndexByte,
		"internal/bytealg.IndexByteString": inIndexByte,
		"internal/bytealg.Equal":        inBytesEqual,
		"bytes.Equal":                   inBytesEqual,
		"internal/bytealg.CountString":  inCountByte,
		"internal/bytealg.Count":        inCountByte,
		"time.Now":                      inTimeNow,
		"time.Unix":                     inTimeUnix,
		"time.UnixMilli":                inTimeUnixMilli,
		"time.Sleep":                    inNop,
		"github.com/google/uuid.New":    inUUIDNew,
		"github.com/google/uuid.NewString": inUUIDNewString,
		"(github.com/google/uuid.UUID).String": inUUIDString,
		"regexp.Compile":                inRegexpCompile,
		"regexp.MustCompile":            inRegexpMustCompile,
		"regexp.QuoteMeta":              inQuoteMeta,
		"(*regexp.Regexp).MatchString":  inRegexpMatchString,
		"(*regexp.Regexp).String":       inRegexpString,
		"net.JoinHostPort":              inJoinHostPort,
		"sort.Strings":                  inSortStrings,
		"slices.Sort[[]string string]":  inSortStrings,
		"math.IsNaN":                    inIsNaN,
		"math.IsInf":                    inIsInf,
		"math.Inf":                      inInf,
		"math.Float64bits":              nil,
		"runtime.Gosched":               inNop,
		"runtime.KeepAlive":             inNop,
	}
	delete(intrinsics, "math.Float64bits")
	registerSyncIntrinsics()
	registerTLSIntrinsics()
}

func (g *G) tryIntrinsic(fn *ssa.Function, args []Value) (Value, bool) {
	name := fn.String()
	if h, ok := intrinsics[name]; ok {
		g.m.res.Intrinsics[name] = true
		return h(g, fn, args), true
	}
	if fn.Name() == "verifPoint" && fn.Pkg != nil && strings.HasPrefix(fn.Pkg.Pkg.Path(), g.m.ld.ModulePath()) {
		// verif-tagged schedule point in the code under test
		label := "verif"
		if s, ok := args[0].(*StrV); ok {
			if cs, ok := concreteString(s); ok {
				label = "verif:" + cs
			}
		}
		g.yield(label)
		return nil, true
	}
	if fn.Pkg != nil {
		p := fn.Pkg.Pkg.Path()
		if strings.HasPrefix(p, "github.com/cybergarage/go-logger/log") {
			g.m.res.Intrinsics["go-logger/log.*"] = true
			return g.m.zeroResults(fn.Signature), true
		}
	} else if strings.Contains(name, "github.com/cybergarage/go-logger/log") {
		return g.m.zeroResults(fn.Signature), true
	}
	if ov, ok := g.m.cfg.Overrides[name]; ok {
		pkg := g.m.ld.PkgByPath[g.m.cfg.Pkg]
		if hf := pkg.Func(ov); hf != nil {
			return g.call(hf, args, nil), true
		}
	}
	return nil, false
}

func inNop(g *G, fn *ssa.Function, args []Value) Value { return g.m.zeroResults(fn.Signature) }

func inIdentity(g *G, fn *ssa.Function, args []Value) Value { return args[0] }

// ---- named types of foreign packages ----

func (m *Machine) namedType(pkgPath, name string) types.Type {
	p := m.ld.PkgByPath[pkgPath]
	if p == nil {
		m.unsupported("package %s not loaded (needed for type %s)", pkgPath, name)
	}
	mem := p.Members[name]
	if mem == nil {
		m.unsupported("type %s.%s not found", pkgPath, name)
	}
	return mem.Type()
}

// newObject allocates a struct object of the given named type and returns pointer + interface wrapper type.
func (m *Machine) newObject(pkgPath, name string) (*Cell, types.Type) {
	t := m.namedType(pkgPath, name)
	return m.newCell(t), types.NewPointer(t)
}

func (m *Machine) errorsNew(text *StrV) *IfaceV {
	cell, pt := m.newObject("errors", "errorString")
	m.store(cell.Kids[0], text)
	return &IfaceV{T: pt, V: cell}
}

// ---- fmt ----

// callError invokes Error() on an error interface value.
func (g *G) callError(iv *IfaceV) *StrV {
	m := g.m
	if iv == nil {
		return m.strConst("<nil>")
	}
	ms := m.prog.MethodSets.MethodSet(iv.T)
	sel := ms.Lookup(nil, "Error")
	if sel == nil {
		m.unsupported("Error() on %v", iv.T)
	}
	fn := m.prog.MethodValue(sel)
	r := g.call(fn, []Value{iv.V}, nil)
	return r.(*StrV)
}

func (g *G) hasMethod(t types.Type, name string) *ssa.Function {
	if t == nil {
		return nil
	}
	ms := g.m.prog.MethodSets.MethodSet(t)
	for i := 0; i < ms.Len(); i++ {
		if ms.At(i).Obj().Name() == name {
			return g.m.prog.MethodValue(ms.At(i))
		}
	}
	return nil
}

func typeString(t types.Type) string {
	return types.TypeString(t, func(p *types.Package) string { return p.Name() })
}

// formatArg renders one operand for a verb.
func (g *G) formatArg(verb byte, a Value) []*Term {
	m := g.m
	c := m.ctx
	iv, _ := a.(*IfaceV)
	if iv == nil {
		if verb == 'w' {
			return m.strConst("%!w(<nil>)").b
		}
		if verb == 'T' {
			return m.strConst("<nil>").b
		}
		if verb == 'd' || verb == 'c' || verb == 'q' || verb == 'x' {
			return m.strConst("%!" + string(verb) + "(<nil>)").b
		}
		return m.strConst("<nil>").b
	}
	if verb == 'T' {
		return m.strConst(typeString(iv.T)).b
	}
	// error / Stringer
	if verb == 's' || verb == 'v' || verb == 'w' || verb == 'q' {
		if f := g.hasMethod(iv.T, "Error"); f != nil {
			s := g.call(f, []Value{iv.V}, nil).(*StrV)
			if verb == 'q' {
				return g.quote(s).Bytes()
			}
			return s.Bytes()
		}
		if f := g.hasMethod(iv.T, "String"); f != nil && f.Signature.Params().Len() == 0 {
			s := g.call(f, []Value{iv.V}, nil).(*StrV)
			if verb == 'q' {
				return g.quote(s).Bytes()
			}
			return s.Bytes()
		}
	}
	switch v := iv.V.(type) {
	case *StrV:
		switch verb {
		case 's', 'v':
			return v.Bytes()
		case 'q':
			return g.quote(v).Bytes()
		case 'x':
			m.unsupported("%%x of string")
		}
		return append(append(m.strConst("%!"+string(verb)+"(string=").b, v.Bytes()...), c.BV(8, ')'))
	case *Term:
		if v.Sort == SBool {
			if v.IsConst() {
				return m.strConst(strconv.FormatBool(v.Val == 1)).b
			}
			if m.cond2("fmtbool", v) {
				return m.strConst("true").b
			}
			return m.strConst("false").b
		}
		if v.Sort == SFP {
			if v.IsConst() {
				return m.strConst(fmt.Sprintf("%"+string(verb), math.Float64frombits(v.Val))).b
			}
			m.unsupported("formatting symbolic float")
		}
		bt, _ := under(iv.T).(*types.Basic)
		signed := true
		if bt != nil {
			_, signed, _ = intWidth(bt)
		}
		t := v
		if t.W < 64 {
			if signed {
				t = c.Sext(t, 64)
			} else {
				t = c.Zext(t, 64)
			}
		}
		switch verb {
		case 'd', 'v':
			return g.itoa(t).Bytes()
		case 'c':
			// rune -> utf8; ASCII only for symbolic
			t = m.simp(t)
			if t.IsConst() {
				return m.strConst(string(rune(t.SVal()))).b
			}
			if m.cond2("fmt%c<0x80", c.Ult(t, c.BV(64, 0x80))) {
				return []*Term{c.Extract(t, 7, 0)}
			}
			// 0x80..0xff encodes as two bytes
			if m.cond2("fmt%c<0x100", c.Ult(t, c.BV(64, 0x100))) {
				b := c.Extract(t, 7, 0)
				b0 := c.BOr(c.BV(8, 0xC0), c.Lshr(b, c.BV(8, 6)))
				b1 := c.BOr(c.BV(8, 0x80), c.BAnd(b, c.BV(8, 0x3F)))
				return []*Term{b0, b1}
			}
			m.cut("%c of symbolic rune >= 0x100")
		case 's':
			return append(append(m.strConst("%!s("+typeString(iv.T)+"=").b, g.itoa(t).Bytes()...), c.BV(8, ')'))
		case 'x':
			if t.IsConst() {
				return m.strConst(strconv.FormatInt(t.SVal(), 16)).b
			}
			m.unsupported("%%x of symbolic int")
		}
	case *SliceV:
		if st, ok := under(iv.T).(*types.Slice); ok {
			if eb, ok := under(st.Elem()).(*types.Basic); ok && eb.Kind() == types.Uint8 {
				bs := m.sliceBytes(v)
				switch verb {
				case 's':
					return bs
				case 'q':
					return g.quote(&StrV{b: bs}).Bytes()
				case 'v', 'd':
					// [1 2 3]
					out := []*Term{c.BV(8, '[')}
					for i, b := range bs {
						if i > 0 {
							out = append(out, c.BV(8, ' '))
						}
						out = append(out, g.itoa(c.Zext(b, 64)).Bytes()...)
					}
					return append(out, c.BV(8, ']'))
				}
			}
		}
	case *Cell:
		if verb == 'v' || verb == 's' || verb == 'p' {
			return m.strConst("0xc000000000").b
		}
	}
	m.unsupported("fmt verb %%%c with operand %T (%v)", verb, iv.V, iv.T)
	return nil
}

func (g *G) sprintf(format *StrV, args []Value) *StrV {
	m := g.m
	fs, ok := concreteString(format)
	if !ok {
		m.unsupported("symbolic format string")
	}
	var out []*Term
	ai := 0
	for i := 0; i < len(fs); i++ {
		ch := fs[i]
		if ch != '%' {
			out = append(out, m.ctx.BV(8, uint64(ch)))
			continue
		}
		i++
		if i >= len(fs) {
			out = append(out, m.strConst("%!(NOVERB)").b...)
			break
		}
		verb := fs[i]
		if verb == '%' {
			out = append(out, m.ctx.BV(8, '%'))
			continue
		}
		if strings.IndexByte("svwdcqTxp", verb) < 0 {
			m.unsupported("format verb %%%c in %q", verb, fs)
		}
		if ai >= len(args) {
			out = append(out, m.strConst("%!"+string(verb)+"(MISSING)").b...)
			continue
		}
		out = append(out, g.formatArg(verb, args[ai])...)
		ai++
	}
	if ai < len(args) {
		out = append(out, m.strConst("%!(EXTRA ").b...)
		for k := ai; k < len(args); k++ {
			if k > ai {
				out = append(out, m.strConst(", ").b...)
			}
			iv, _ := args[k].(*IfaceV)
			if iv == nil {
				out = append(out, m.strConst("<nil>").b...)
				continue
			}
			out = append(out, m.strConst(typeString(iv.T)+"=").b...)
			out = append(out, g.formatArg('v', args[k])...)
		}
		out = append(out, m.ctx.BV(8, ')'))
	}
	return &StrV{b: out}
}

func variadicArgs(g *G, v Value) []Value {
	s, _ := v.(*SliceV)
	if s.IsNil() {
		return nil
	}
	out := make([]Value, s.Len)
	for i := range out {
		out[i] = g.m.load(s.Arr.Cells[s.Off+i])
	}
	return out
}

func inFmtSprintf(g *G, fn *ssa.Function, args []Value) Value {
	return g.sprintf(args[0].(*StrV), variadicArgs(g, args[1]))
}

func inFmtSprint(g *G, fn *ssa.Function, args []Value) Value {
	var out []*Term
	for _, a := range variadicArgs(g, args[0]) {
		out = append(out, g.formatArg('v', a)...)
	}
	return &StrV{b: out}
}

func inFmtErrorf(g *G, fn *ssa.Function, args []Value) Value {
	m := g.m
	format := args[0].(*StrV)
	ops := variadicArgs(g, args[1])
	fs, ok := concreteString(format)
	if !ok {
		m.unsupported("symbolic format string")
	}
	// find %w operands
	var wrapped []*IfaceV
	ai := 0
	for i := 0; i < len(fs); i++ {
		if fs[i] != '%' {
			continue
		}
		i++
		if i >= len(fs) {
			break
		}
		if fs[i] == '%' {
			continue
		}
		if fs[i] == 'w' && ai < len(ops) {
			if iv, _ := ops[ai].(*IfaceV); iv != nil && g.hasMethod(iv.T, "Error") != nil {
				wrapped = append(wrapped, iv)
			}
		}
		ai++
	}
	// the text is rendered lazily: an error that is only logged never forks on its operands
	msg := &StrV{}
	msg.lazy = func() []*Term { return g.m.curG.sprintf(format, ops).Bytes() }
	switch len(wrapped) {
	case 0:
		return m.errorsNew(msg)
	case 1:
		cell, pt := m.newObject("fmt", "wrapError")
		m.store(cell.Kids[0], msg)
		m.store(cell.Kids[1], wrapped[0])
		return &IfaceV{T: pt, V: cell}
	default:
		cell, pt := m.newObject("fmt", "wrapErrors")
		m.store(cell.Kids[0], msg)
		et := m.namedErrorType()
		arr := m.newArr(et, len(wrapped))
		for i, w := range wrapped {
			m.store(arr.Cells[i], w)
		}
		m.store(cell.Kids[1], &SliceV{Arr: arr, Len: len(wrapped), Cap: len(wrapped)})
		return &IfaceV{T: pt, V: cell}
	}
}

func (m *Machine) namedErrorType() types.Type {
	return types.Universe.Lookup("error").Type()
}

// ---- errors ----

func (g *G) errorsIs(err, target *IfaceV, depth int) bool {
	m := g.m
	if err == nil || target == nil {
		return err == target
	}
	if depth > 50 {
		m.unsupported("errors.Is chain too deep")
	}
	for {
		if types.Identical(err.T, target.T) && types.Comparable(err.T) {
			eq := m.simp(g.equal(err.T, err.V, target.V))
			if eq.IsTrue() || (!eq.IsFalse() && m.cond2("errors.Is", eq)) {
				return true
			}
		}
		if f := g.hasMethod(err.T, "Is"); f != nil && f.Signature.Params().Len() == 1 {
			r := g.call(f, []Value{err.V, target}, nil).(*Term)
			if m.cond2("errors.Is-method", r) {
				return true
			}
		}
		f := g.hasMethod(err.T, "Unwrap")
		if f == nil {
			return false
		}
		res := f.Signature.Results()
		if res.Len() != 1 {
			return false
		}
		r := g.call(f, []Value{err.V}, nil)
		if _, isSlice := under(res.At(0).Type()).(*types.Slice); isSlice {
			s, _ := r.(*SliceV)
			if s.IsNil() {
				return false
			}
			for i := 0; i < s.Len; i++ {
				e, _ := m.load(s.Arr.Cells[s.Off+i]).(*IfaceV)
				if g.errorsIs(e, target, depth+1) {
					return true
				}
			}
			return false
		}
		next, _ := r.(*IfaceV)
		if next == nil {
			return false
		}
		err = next
	}
}

func inErrorsIs(g *G, fn *ssa.Function, args []Value) Value {
	e, _ := args[0].(*IfaceV)
	t, _ := args[1].(*IfaceV)
	return g.m.ctx.Bool(g.errorsIs(e, t, 0))
}

func inJoinErrorError(g *G, fn *ssa.Function, args []Value) Value {
	m := g.m
	cell := args[0].(*Cell)
	s, _ := m.load(cell.Kids[0]).(*SliceV)
	var out []*Term
	for i := 0; s != nil && i < s.Len; i++ {
		if i > 0 {
			out = append(out, m.ctx.BV(8, '\n'))
		}
		e, _ := m.load(s.Arr.Cells[s.Off+i]).(*IfaceV)
		out = append(out, g.callError(e).Bytes()...)
	}
	return &StrV{b: out}
}

// ---- strconv ----

var pow10 = func() []uint64 {
	p := make([]uint64, 20)
	p[0] = 1
	for i := 1; i < 20; i++ {
		p[i] = p[i-1] * 10
	}
	return p
}()

// itoa renders a signed 64-bit term as decimal text. For symbolic values the sign and the digit
// count are decided by forking and the digits are fresh variables tied to the value by a Horner
// constraint. Memoised per term so that equal terms yield identical strings.
func (g *G) itoa(t *Term) *StrV {
	m := g.m
	c := m.ctx
	t = m.simp(t)
	if t.IsConst() {
		return m.strConst(strconv.FormatInt(t.SVal(), 10))
	}
	if s, ok := m.itoaMemo[t.ID]; ok {
		return s
	}
	zero := c.BV(64, 0)
	neg := m.cond2("itoa-sign", c.Slt(t, zero))
	mag := t
	if neg {
		mag = c.Neg(t)
	}
	// digit count
	alts := make([]*Term, 0, 19)
	for L := 1; L <= 19; L++ {
		var cond *Term
		if L == 1 {
			cond = c.Ult(mag, c.BV(64, 10))
		} else {
			cond = c.And(c.Ule(c.BV(64, pow10[L-1]), mag), c.Ult(mag, c.BV(64, pow10[L])))
		}
		alts = append(alts, cond)
	}
	if neg {
		// -2^63 has 19 digits and mag wraps to 2^63 which is < 10^19: covered by unsigned compare
	}
	L := m.branch("itoa-len", alts...) + 1
	digits := make([]*Term, L)
	sum := zero
	for i := 0; i < L; i++ {
		d := c.Var(fmt.Sprintf("itoa%d!%d", t.ID, i), SBV, 8)
		digits[i] = d
		lo := uint64('0')
		if i == 0 && L > 1 {
			lo = '1'
		}
		m.addPC(c.And(c.Ule(c.BV(8, lo), d), c.Ule(d, c.BV(8, '9'))))
		dv := c.Zext(c.Sub(d, c.BV(8, '0')), 64)
		sum = c.Add(c.Mul(sum, c.BV(64, 10)), dv)
	}
	m.addPC(c.Eq(sum, mag))
	out := digits
	if neg {
		out = append([]*Term{c.BV(8, '-')}, digits...)
	}
	s := &StrV{b: out}
	m.itoaMemo[t.ID] = s
	return s
}

func inItoa(g *G, fn *ssa.Function, args []Value) Value { return g.itoa(args[0].(*Term)) }

func inFormatInt(g *G, fn *ssa.Function, args []Value) Value {
	base := g.m.simp(args[1].(*Term))
	if !base.IsConst() || base.Val != 10 {
		t := g.m.simp(args[0].(*Term))
		if t.IsConst() && base.IsConst() {
			return g.m.strConst(strconv.FormatInt(t.SVal(), int(base.Val)))
		}
		g.m.unsupported("FormatInt with base != 10 on symbolic value")
	}
	return g.itoa(args[0].(*Term))
}

// ParseFloat: concrete text natively; symbolic text through uninterpreted functions per length.
func inParseFloat(g *G, fn *ssa.Function, args []Value) Value {
	m := g.m
	c := m.ctx
	s := args[0].(*StrV)
	bits := m.simp(args[1].(*Term))
	errT := m.namedErrorType()
	_ = errT
	if cs, ok := concreteString(s); ok && bits.IsConst() {
		f, err := strconv.ParseFloat(cs, int(bits.Val))
		if err != nil {
			ne := err.(*strconv.NumError)
			return Tuple{c.FPConst(f), g.numError("ParseFloat", s, ne.Err == strconv.ErrRange)}
		}
		return Tuple{c.FPConst(f), (*IfaceV)(nil)}
	}
	bs := s.Bytes()
	if len(bs) == 0 {
		return Tuple{c.FPConst(0), g.numError("ParseFloat", s, false)}
	}
	var ok, val *Term
	isDigit := func(b *Term) *Term { return c.And(c.Ule(c.BV(8, '0'), b), c.Ule(b, c.BV(8, '9'))) }
	digitVal := func(b *Term) *Term { return c.FFromSBV(c.Zext(c.Sub(b, c.BV(8, '0')), 64)) }
	switch len(bs) {
	case 1:
		// exact: a single decimal digit
		ok, val = isDigit(bs[0]), digitVal(bs[0])
	case 2:
		// exact: "dd", "+d", "-d", "d.", ".d" are the only two-character floats
		a, b := bs[0], bs[1]
		dd := c.And(isDigit(a), isDigit(b))
		pd := c.And(c.Eq(a, c.BV(8, '+')), isDigit(b))
		md := c.And(c.Eq(a, c.BV(8, '-')), isDigit(b))
		dp := c.And(isDigit(a), c.Eq(b, c.BV(8, '.')))
		pdot := c.And(c.Eq(a, c.BV(8, '.')), isDigit(b))
		ok = c.Or(c.Or(c.Or(dd, pd), c.Or(md, dp)), pdot)
		ddv := c.FFromSBV(c.Add(c.Mul(c.Zext(c.Sub(a, c.BV(8, '0')), 64), c.BV(64, 10)), c.Zext(c.Sub(b, c.BV(8, '0')), 64)))
		val = c.Ite(dd, ddv, c.Ite(pd, digitVal(b), c.Ite(md, c.FNeg(digitVal(b)), c.Ite(dp, digitVal(a), c.Ite(pdot, c.FDiv(digitVal(b), c.FPConst(10)), c.FPConst(0))))))
	default:
		ok = c.UF(fmt.Sprintf("pf_ok_%d", len(bs)), SBool, 0, bs)
		val = c.UF(fmt.Sprintf("pf_val_%d", len(bs)), SFP, 0, bs)
		// necessary condition: only characters that can occur in a float literal
		for _, b := range bs {
			allowed := c.False
			for _, ch := range []byte("0123456789+-.eEinfINFatyAYxXpP_abcdfABCDF") {
				allowed = c.Or(allowed, c.Eq(b, c.BV(8, uint64(ch))))
			}
			ok = c.And(ok, allowed)
		}
		m.res.Intrinsics["strconv.ParseFloat(symbolic text longer than 2 bytes: uninterpreted pf_val/pf_ok)"] = true
		m.pathAbstract = true
	}
	if m.cond2("parsefloat-ok", ok) {
		return Tuple{val, (*IfaceV)(nil)}
	}
	return Tuple{c.FPConst(0), g.numError("ParseFloat", s, false)}
}

func (g *G) numError(fname string, num *StrV, rangeErr bool) *IfaceV {
	m := g.m
	cell, pt := m.newObject("strconv", "NumError")
	m.store(cell.Kids[0], m.strConst(fname))
	m.store(cell.Kids[1], num)
	sp := m.ld.PkgByPath["strconv"]
	gname := "ErrSyntax"
	if rangeErr {
		gname = "ErrRange"
	}
	gl := sp.Members[gname].(*ssa.Global)
	m.store(cell.Kids[2], m.load(m.global(g, gl)))
	return &IfaceV{T: pt, V: cell}
}

func inFormatFloat(g *G, fn *ssa.Function, args []Value) Value {
	m := g.m
	f := m.simp(args[0].(*Term))
	fmtc := m.simp(args[1].(*Term))
	prec := m.simp(args[2].(*Term))
	bits := m.simp(args[3].(*Term))
	if !fmtc.IsConst() || !prec.IsConst() || !bits.IsConst() {
		m.unsupported("FormatFloat with symbolic format")
	}
	if !f.IsConst() {
		// enumerate the feasible values of f with the solver (finite small domains only)
		f = g.enumerateFP(f)
	}
	return m.strConst(strconv.FormatFloat(math.Float64frombits(f.Val), byte(fmtc.Val), int(prec.SVal()), int(bits.Val)))
}

// enumerateFP forks over the feasible values of a float term (for finite, small domains).
func (g *G) enumerateFP(f *Term) *Term {
	m := g.m
	c := m.ctx
	for n := 0; n < 64; n++ {
		// ask for a model value
		probe := c.Var(fmt.Sprintf("fpprobe%d", f.ID), SBV, 64)
		_ = probe
		sl := m.slice(f)
		// encode f's bits via an auxiliary variable equality: (= ((_ to_fp 11 53) probe) f) misses NaN payloads; acceptable
		bitsEq := c.mk(&Term{Op: OEq, Sort: SBool, Args: []*Term{c.mk(&Term{Op: OFFromBits, Sort: SFP, Args: []*Term{probe}}), f}})
		r, model, err := m.solver.Check(append(append([]*Term{}, sl...), bitsEq), []*Term{probe})
		if err != nil || r != Sat {
			m.unsupported("cannot enumerate values of symbolic float")
		}
		v := c.mk(&Term{Op: OConst, Sort: SFP, Val: model[probe.Name]})
		eq := c.mk(&Term{Op: OEq, Sort: SBool, Args: []*Term{f, v}})
		if m.cond2("fp-enum", eq) {
			return v
		}
	}
	m.unsupported("symbolic float has too many feasible values to enumerate")
	return nil
}

func (g *G) quote(s *StrV) *StrV {
	m := g.m
	if cs, ok := concreteString(s); ok {
		return m.strConst(strconv.Quote(cs))
	}
	// symbolic: printable ASCII (other than quote and backslash) is kept verbatim; anything else is cut
	c := m.ctx
	out := []*Term{c.BV(8, '"')}
	for _, b := range s.Bytes() {
		plain := c.And(c.And(c.Ule(c.BV(8, 0x20), b), c.Ule(b, c.BV(8, 0x7e))), c.And(c.Not(c.Eq(b, c.BV(8, '"'))), c.Not(c.Eq(b, c.BV(8, '\\')))))
		if !m.cond2("quote-plain", plain) {
			m.cut("strconv.Quote of symbolic non-printable byte")
		}
		out = append(out, b)
	}
	out = append(out, c.BV(8, '"'))
	return &StrV{b: out}
}

func inQuote(g *G, fn *ssa.Function, args []Value) Value { return g.quote(args[0].(*StrV)) }

// ---- strings ----

func (g *G) caseMap(s *StrV, upper bool) *StrV {
	m := g.m
	c := m.ctx
	bs := s.Bytes()
	out := make([]*Term, len(bs))
	for i, b := range bs {
		if b.UHi >= 0x80 {
			if !m.cond2("ascii", c.Ult(b, c.BV(8, 0x80))) {
				m.cut("strings.ToUpper/ToLower on non-ASCII byte")
			}
		}
		if upper {
			isLower := c.And(c.Ule(c.BV(8, 'a'), b), c.Ule(b, c.BV(8, 'z')))
			out[i] = c.Ite(isLower, c.Sub(b, c.BV(8, 32)), b)
		} else {
			isUpper := c.And(c.Ule(c.BV(8, 'A'), b), c.Ule(b, c.BV(8, 'Z')))
			out[i] = c.Ite(isUpper, c.Add(b, c.BV(8, 32)), b)
		}
	}
	return &StrV{b: out}
}

func inToUpper(g *G, fn *ssa.Function, args []Value) Value { return g.caseMap(args[0].(*StrV), true) }
func inToLower(g *G, fn *ssa.Function, args []Value) Value { return g.caseMap(args[0].(*StrV), false) }

func inEqualFold(g *G, fn *ssa.Function, args []Value) Value {
	a := g.caseMap(args[0].(*StrV), false)
	b := g.caseMap(args[1].(*StrV), false)
	return g.equal(types.Typ[types.String], a, b)
}

func inReplaceAll(g *G, fn *ssa.Function, args []Value) Value {
	m := g.m
	s, ok1 := concreteString(args[0].(*StrV))
	o, ok2 := concreteString(args[1].(*StrV))
	n, ok3 := concreteString(args[2].(*StrV))
	if ok1 && ok2 && ok3 {
		return m.strConst(strings.ReplaceAll(s, o, n))
	}
	// symbolic subject with a single-byte concrete pattern: fork per byte
	if ok2 && len(o) == 1 {
		c := m.ctx
		var out []*Term
		for _, b := range args[0].(*StrV).Bytes() {
			if m.cond2("replace", c.Eq(b, c.BV(8, uint64(o[0])))) {
				out = append(out, args[2].(*StrV).Bytes()...)
			} else {
				out = append(out, b)
			}
		}
		return &StrV{b: out}
	}
	m.unsupported("strings.ReplaceAll with symbolic pattern")
	return nil
}

func inJoin(g *G, fn *ssa.Function, args []Value) Value {
	elems := g.elemValues(args[0])
	sep := args[1].(*StrV).Bytes()
	var out []*Term
	for i, e := range elems {
		if i > 0 {
			out = append(out, sep...)
		}
		out = append(out, e.(*StrV).Bytes()...)
	}
	return &StrV{b: out}
}

func inMakeNoZero(g *G, fn *ssa.Function, args []Value) Value {
	m := g.m
	n := m.simp(args[0].(*Term))
	if !n.IsConst() {
		m.unsupported("MakeNoZero with symbolic length")
	}
	a := m.newArr(types.Typ[types.Uint8], int(n.Val))
	return &SliceV{Arr: a, Len: int(n.Val), Cap: int(n.Val)}
}

func (g *G) byteSeq(v Value) []*Term {
	switch x := v.(type) {
	case *StrV:
		return x.Bytes()
	case *SliceV:
		return g.m.sliceBytes(x)
	}
	return nil
}

func inIndexByte(g *G, fn *ssa.Function, args []Value) Value {
	m := g.m
	c := m.ctx
	bs := g.byteSeq(args[0])
	ch := args[1].(*Term)
	for i, b := range bs {
		if m.cond2("indexbyte", c.Eq(b, ch)) {
			return c.BV(64, uint64(i))
		}
	}
	return c.BV(64, ^uint64(0))
}

func inCountByte(g *G, fn *ssa.Function, args []Value) Value {
	m := g.m
	c := m.ctx
	bs := g.byteSeq(args[0])
	ch := args[1].(*Term)
	n := c.BV(64, 0)
	for _, b := range bs {
		n = c.Add(n, c.Ite(c.Eq(b, ch), c.BV(64, 1), c.BV(64, 0)))
	}
	return n
}

func inBytesEqual(g *G, fn *ssa.Function, args []Value) Value {
	a, b := g.byteSeq(args[0]), g.byteSeq(args[1])
	return g.equal(types.Typ[types.String], &StrV{b: a}, &StrV{b: b})
}

// ---- time ----

const unixToInternal = (1969*365 + 1969/4 - 1969/100 + 1969/400) * 86400

func (m *Machine) localLoc(g *G) *Cell {
	tp := m.ld.PkgByPath["time"]
	if tp == nil {
		m.unsupported("package time not loaded")
	}
	gl := tp.Members["localLoc"].(*ssa.Global)
	return m.global(g, gl)
}

func (m *Machine) mkTime(g *G, sec, nsec *Term) Value {
	c := m.ctx
	// wall-clock only instant: wall = nsec, ext = seconds since year 1
	return &StructV{F: []Value{c.Zext(nsec, 64), c.Add(sec, c.BV(64, unixToInternal)), m.localLoc(g)}}
}

func inTimeNow(g *G, fn *ssa.Function, args []Value) Value {
	m := g.m
	c := m.ctx
	k := m.timeCtr
	m.timeCtr++
	var sec, nsec *Term
	if m.cfg.Params["fixednow"] == "1" {
		// concrete clock: successive instants one millisecond apart
		return m.mkTime(g, c.BV(64, uint64(1700000000)), c.BV(32, uint64(k*1000000)))
	}
	if m.cfg.FixedVector != nil {
		sec = m.newVar("int", "now.sec", SBV, 64)
		nsec = m.newVar("int", "now.nsec", SBV, 32)
	} else {
		sec = c.Var(fmt.Sprintf("now.sec!%d", k), SBV, 64)
		nsec = c.Var(fmt.Sprintf("now.nsec!%d", k), SBV, 32)
		// plausible wall-clock range keeps the arithmetic away from saturation branches
		m.addPC(c.And(c.Sle(c.BV(64, 1600000000), sec), c.Sle(sec, c.BV(64, 4000000000))))
		m.addPC(c.Ult(nsec, c.BV(32, 1000000000)))
	}
	// instants are non-decreasing across calls (lexicographic on seconds, nanoseconds)
	if m.lastSec != nil && m.cfg.FixedVector == nil {
		m.addPC(c.Or(c.Slt(m.lastSec, sec), c.And(c.Eq(m.lastSec, sec), c.Ule(m.lastNsec, nsec))))
	}
	m.lastSec, m.lastNsec = sec, nsec
	return m.mkTime(g, sec, nsec)
}

func inTimeUnix(g *G, fn *ssa.Function, args []Value) Value {
	m := g.m
	c := m.ctx
	sec := args[0].(*Term)
	nsec := m.simp(args[1].(*Term))
	if !nsec.IsConst() || nsec.SVal() < 0 || nsec.SVal() >= 1e9 {
		m.unsupported("time.Unix with symbolic or out-of-range nsec")
	}
	return m.mkTime(g, sec, c.BV(32, nsec.Val))
}

func inTimeUnixMilli(g *G, fn *ssa.Function, args []Value) Value {
	m := g.m
	c := m.ctx
	ms := args[0].(*Term)
	// Unix(msec/1e3, (msec%1e3)*1e6) with nsec normalisation for negatives
	k := c.BV(64, 1000)
	sec := c.SDiv(ms, k)
	rem := c.SRem(ms, k)
	negRem := c.Slt(rem, c.BV(64, 0))
	sec = c.Ite(negRem, c.Sub(sec, c.BV(64, 1)), sec)
	rem = c.Ite(negRem, c.Add(rem, k), rem)
	nsec := c.Extract(c.Mul(rem, c.BV(64, 1000000)), 31, 0)
	return m.mkTime(g, sec, nsec)
}

// ---- uuid ----

func inUUIDNew(g *G, fn *ssa.Function, args []Value) Value {
	m := g.m
	m.uuidCtr++
	a := &ArrayV{E: make([]Value, 16)}
	for i := range a.E {
		a.E[i] = m.ctx.BV(8, 0)
	}
	a.E[0] = m.ctx.BV(8, 0x75)
	a.E[14] = m.ctx.BV(8, uint64(m.uuidCtr>>8))
	a.E[15] = m.ctx.BV(8, uint64(m.uuidCtr))
	return a
}

func inUUIDString(g *G, fn *ssa.Function, args []Value) Value {
	a := args[0].(*ArrayV)
	var sb strings.Builder
	for i, e := range a.E {
		if i == 4 || i == 6 || i == 8 || i == 10 {
			sb.WriteByte('-')
		}
		fmt.Fprintf(&sb, "%02x", e.(*Term).Val)
	}
	return g.m.strConst(sb.String())
}

func inUUIDNewString(g *G, fn *ssa.Function, args []Value) Value {
	return inUUIDString(g, fn, []Value{inUUIDNew(g, fn, nil)})
}

// ---- regexp (opaque) ----

type regexObj struct {
	src *StrV
	re  *regexp.Regexp // when concrete
}

func (g *G) regexpCompile(src *StrV) (Value, *IfaceV) {
	m := g.m
	cell, _ := m.newObject("regexp", "Regexp")
	ro := &regexObj{src: src}
	cell.Ext = ro
	if cs, ok := concreteString(src); ok {
		re, err := regexp.Compile(cs)
		if err != nil {
			return (*Cell)(nil), m.errorsNew(m.strConst(err.Error()))
		}
		ro.re = re
		return cell, nil
	}
	// regexp.Compile rejects every pattern that is not valid UTF-8 (syntax.ErrInvalidUTF8): that
	// part of the verdict is decided exactly, by forking on the byte classes
	if !g.validUTF8Fork(src.Bytes()) {
		m.res.Intrinsics["regexp.Compile(symbolic: invalid UTF-8 decided exactly)"] = true
		return (*Cell)(nil), m.errorsNew(m.strConst("error parsing regexp: invalid UTF-8"))
	}
	m.pathAbstract = true
	okT := m.ctx.UF(fmt.Sprintf("rx_ok_%d", len(src.Bytes())), SBool, 0, src.Bytes())
	m.res.Intrinsics["regexp.Compile(symbolic: uninterpreted rx_ok)"] = true
	if m.cond2("regexp-ok", okT) {
		return cell, nil
	}
	return (*Cell)(nil), m.errorsNew(m.strConst("error parsing regexp"))
}

// validUTF8Fork walks a (possibly symbolic) byte string like utf8.ValidString, forking on byte classes.
func (g *G) validUTF8Fork(bs []*Term) bool {
	c := g.m.ctx
	for i := 0; i < len(bs); {
		if bs[i].IsConst() && bs[i].Val < 0x80 {
			i++
			continue
		}
		if g.m.cond2("utf8-ascii", c.Ult(bs[i], c.BV(8, 0x80))) {
			i++
			continue
		}
		_, w := g.decodeRuneSym(bs[i:])
		if w == 1 {
			return false
		}
		i += w
	}
	return true
}

func inRegexpCompile(g *G, fn *ssa.Function, args []Value) Value {
	c, err := g.regexpCompile(args[0].(*StrV))
	return Tuple{c, err}
}

func inRegexpMustCompile(g *G, fn *ssa.Function, args []Value) Value {
	c, err := g.regexpCompile(args[0].(*StrV))
	if err != nil {
		panic(&goPanic{val: &IfaceV{T: types.Typ[types.String], V: g.m.strConst("regexp: Compile: error")}, kind: "explicit", site: g.siteOfModule(), stack: g.stackTrace()})
	}
	return c
}

func inRegexpMatchString(g *G, fn *ssa.Function, args []Value) Value {
	m := g.m
	cell, _ := args[0].(*Cell)
	if cell == nil {
		g.throw("nil-deref", "invalid memory address or nil pointer dereference")
	}
	ro, _ := cell.Ext.(*regexObj)
	if ro == nil {
		m.unsupported("MatchString on unknown regexp object")
	}
	s := args[1].(*StrV)
	if cs, ok := concreteString(s); ok && ro.re != nil {
		return m.ctx.Bool(ro.re.MatchString(cs))
	}
	all := append(append([]*Term{}, ro.src.Bytes()...), s.Bytes()...)
	if len(all) == 0 {
		return m.ctx.True
	}
	m.res.Intrinsics["regexp.MatchString(symbolic: uninterpreted rx_match)"] = true
	m.pathAbstract = true
	return m.ctx.UF(fmt.Sprintf("rx_match_%d_%d", len(ro.src.Bytes()), len(s.Bytes())), SBool, 0, all)
}

func inRegexpString(g *G, fn *ssa.Function, args []Value) Value {
	cell, _ := args[0].(*Cell)
	if cell == nil {
		g.throw("nil-deref", "invalid memory address or nil pointer dereference")
	}
	return cell.Ext.(*regexObj).src
}

func inQuoteMeta(g *G, fn *ssa.Function, args []Value) Value {
	m := g.m
	c := m.ctx
	s := args[0].(*StrV)
	if cs, ok := concreteString(s); ok {
		return m.strConst(regexp.QuoteMeta(cs))
	}
	var out []*Term
	for _, b := range s.Bytes() {
		special := c.False
		for _, ch := range []byte(`\.+*?()|[]{}^$`) {
			special = c.Or(special, c.Eq(b, c.BV(8, uint64(ch))))
		}
		if m.cond2("quotemeta", special) {
			out = append(out, c.BV(8, '\\'))
		}
		out = append(out, b)
	}
	return &StrV{b: out}
}

// ---- misc ----

func inJoinHostPort(g *G, fn *ssa.Function, args []Value) Value {
	m := g.m
	h, ok1 := concreteString(args[0].(*StrV))
	p, ok2 := concreteString(args[1].(*StrV))
	if ok1 && ok2 {
		return m.strConst(net.JoinHostPort(h, p))
	}
	out := append(append([]*Term{}, args[0].(*StrV).Bytes()...), m.ctx.BV(8, ':'))
	return &StrV{b: append(out, args[1].(*StrV).Bytes()...)}
}

func inSortStrings(g *G, fn *ssa.Function, args []Value) Value {
	m := g.m
	s, _ := args[0].(*SliceV)
	if s.IsNil() || s.Len < 2 {
		return nil
	}
	// insertion sort with forking comparisons
	vals := g.elemValues(s)
	strs := make([]*StrV, len(vals))
	for i, v := range vals {
		strs[i] = v.(*StrV)
	}
	for i := 1; i < len(strs); i++ {
		for j := i; j > 0; j-- {
			if m.cond2("sortcmp", g.strLess(strs[j], strs[j-1], false)) {
				strs[j], strs[j-1] = strs[j-1], strs[j]
			} else {
				break
			}
		}
	}
	for i, st := range strs {
		m.store(s.Arr.Cells[s.Off+i], st)
	}
	return nil
}

func inIsNaN(g *G, fn *ssa.Function, args []Value) Value { return g.m.ctx.FIsNaN(args[0].(*Term)) }

func inIsInf(g *G, fn *ssa.Function, args []Value) Value {
	m := g.m
	c := m.ctx
	f := args[0].(*Term)
	sign := m.simp(args[1].(*Term))
	if !sign.IsConst() {
		m.unsupported("math.IsInf with symbolic sign")
	}
	pinf, ninf := c.FPConst(math.Inf(1)), c.FPConst(math.Inf(-1))
	switch {
	case sign.SVal() > 0:
		return c.FEq(f, pinf)
	case sign.SVal() < 0:
		return c.FEq(f, ninf)
	}
	return c.Or(c.FEq(f, pinf), c.FEq(f, ninf))
}

func inInf(g *G, fn *ssa.Function, args []Value) Value {
	sign := g.m.simp(args[0].(*Term))
	if !sign.IsConst() {
		g.m.unsupported("math.Inf with symbolic sign")
	}
	if sign.SVal() >= 0 {
		return g.m.ctx.FPConst(math.Inf(1))
	}
	return g.m.ctx.FPConst(math.Inf(-1))
}

// ---- strings.Builder (its real code relies on unsafe) ----

type builderState struct{ b []*Term }

func builderOf(g *G, v Value) *builderState {
	c := recvCell(g, v)
	st, _ := c.Ext.(*builderState)
	if st == nil {
		st = &builderState{}
		c.Ext = st
	}
	return st
}

func init() {
	intrinsics["internal/abi.NoEscape"] = inIdentity
	intrinsics["(*strings.Builder).WriteString"] = func(g *G, fn *ssa.Function, args []Value) Value {
		st := builderOf(g, args[0])
		bs := args[1].(*StrV).Bytes()
		st.b = append(st.b, bs...)
		return Tuple{g.m.ctx.BV(64, uint64(len(bs))), (*IfaceV)(nil)}
	}
	intrinsics["(*strings.Builder).Write"] = func(g *G, fn *ssa.Function, args []Value) Value {
		st := builderOf(g, args[0])
		bs := g.byteSeq(args[1])
		st.b = append(st.b, bs...)
		return Tuple{g.m.ctx.BV(64, uint64(len(bs))), (*IfaceV)(nil)}
	}
	intrinsics["(*strings.Builder).WriteByte"] = func(g *G, fn *ssa.Function, args []Value) Value {
		st := builderOf(g, args[0])
		st.b = append(st.b, args[1].(*Term))
		return (*IfaceV)(nil)
	}
	intrinsics["(*strings.Builder).WriteRune"] = func(g *G, fn *ssa.Function, args []Value) Value {
		st := builderOf(g, args[0])
		r := g.m.simp(args[1].(*Term))
		if r.IsConst() {
			s := string(rune(r.SVal()))
			st.b = append(st.b, g.m.strConst(s).b...)
			return Tuple{g.m.ctx.BV(64, uint64(len(s))), (*IfaceV)(nil)}
		}
		if !g.m.cond2("rune<0x80", g.m.ctx.Ult(r, g.m.ctx.BV(32, 0x80))) {
			g.m.cut("strings.Builder.WriteRune of symbolic non-ASCII rune")
		}
		st.b = append(st.b, g.m.ctx.Extract(r, 7, 0))
		return Tuple{g.m.ctx.BV(64, 1), (*IfaceV)(nil)}
	}
	intrinsics["(*strings.Builder).String"] = func(g *G, fn *ssa.Function, args []Value) Value {
		st := builderOf(g, args[0])
		return &StrV{b: append([]*Term{}, st.b...)}
	}
	intrinsics["(*strings.Builder).Len"] = func(g *G, fn *ssa.Function, args []Value) Value {
		return g.m.ctx.BV(64, uint64(len(builderOf(g, args[0]).b)))
	}
	intrinsics["(*strings.Builder).Reset"] = func(g *G, fn *ssa.Function, args []Value) Value {
		builderOf(g, args[0]).b = nil
		return nil
	}
	intrinsics["(*strings.Builder).Grow"] = inNop
}


// ---- math on concrete operands (the library uses assembly stubs) ----

func mathUnary(name string, f func(float64) float64) {
	intrinsics["math."+name] = func(g *G, fn *ssa.Function, args []Value) Value {
		t := g.m.simp(args[0].(*Term))
		if !t.IsConst() {
			if name == "Abs" {
				c := g.m.ctx
				return c.Ite(c.FLt(t, c.FPConst(0)), c.FNeg(t), t)
			}
			g.m.unsupported("math.%s of a symbolic float", name)
		}
		return g.m.ctx.FPConst(f(math.Float64frombits(t.Val)))
	}
}

func init() {
	mathUnary("Trunc", math.Trunc)
	mathUnary("Floor", math.Floor)
	mathUnary("Ceil", math.Ceil)
	mathUnary("Round", math.Round)
	mathUnary("Abs", math.Abs)
	mathUnary("Sqrt", math.Sqrt)
	mathUnary("Log10", math.Log10)
	mathUnary("Log2", math.Log2)
	intrinsics["math.Float64bits"] = func(g *G, fn *ssa.Function, args []Value) Value {
		t := g.m.simp(args[0].(*Term))
		if !t.IsConst() {
			g.m.unsupported("math.Float64bits of a symbolic float")
		}
		return g.m.ctx.BV(64, t.Val)
	}
	intrinsics["math.Float64frombits"] = func(g *G, fn *ssa.Function, args []Value) Value {
		t := g.m.simp(args[0].(*Term))
		if !t.IsConst() {
			g.m.unsupported("math.Float64frombits of a symbolic value")
		}
		return g.m.ctx.mk(&Term{Op: OConst, Sort: SFP, Val: t.Val})
	}
	intrinsics["math.Mod"] = func(g *G, fn *ssa.Function, args []Value) Value {
		a, b := g.m.simp(args[0].(*Term)), g.m.simp(args[1].(*Term))
		if !a.IsConst() || !b.IsConst() {
			g.m.unsupported("math.Mod of symbolic floats")
		}
		return g.m.ctx.FPConst(math.Mod(math.Float64frombits(a.Val), math.Float64frombits(b.Val)))
	}
}


// errors.As: walk the chain; the first error whose dynamic type is assignable to the target's element type is stored.
func inErrorsAs(g *G, fn *ssa.Function, args []Value) Value {
	m := g.m
	err, _ := args[0].(*IfaceV)
	target, _ := args[1].(*IfaceV)
	if target == nil {
		panic(&goPanic{val: &IfaceV{T: types.Typ[types.String], V: m.strConst("errors: target cannot be nil")}, kind: "explicit", site: g.siteOfModule(), stack: g.stackTrace()})
	}
	pt, ok := target.T.(*types.Pointer)
	if !ok {
		m.unsupported("errors.As with a non-pointer target")
	}
	cell, _ := target.V.(*Cell)
	elem := pt.Elem()
	for depth := 0; err != nil && depth < 50; depth++ {
		match := false
		if types.IsInterface(elem) {
			match = types.Implements(err.T, elem.Underlying().(*types.Interface))
		} else {
			match = types.Identical(err.T, elem)
		}
		if match {
			if types.IsInterface(elem) {
				m.store(cell, err)
			} else {
				m.store(cell, err.V)
			}
			return m.ctx.True
		}
		f := g.hasMethod(err.T, "Unwrap")
		if f == nil || f.Signature.Results().Len() != 1 {
			break
		}
		if _, isSlice := under(f.Signature.Results().At(0).Type()).(*types.Slice); isSlice {
			m.unsupported("errors.As through a multi-error")
		}
		next, _ := g.call(f, []Value{err.V}, nil).(*IfaceV)
		err = next
	}
	return m.ctx.False
}
