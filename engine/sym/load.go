package sym

import (
	"fmt"
	"os"
	"path/filepath"
	"strings"

	"golang.org/x/tools/go/packages"
	"golang.org/x/tools/go/ssa"
	"golang.org/x/tools/go/ssa/ssautil"
)

// Loaded is the SSA program of /repo plus harness overlays. Read-only after Load.
type Loaded struct {
	Prog      *ssa.Program
	Pkgs      []*ssa.Package
	PkgByPath map[string]*ssa.Package
	Overlay   map[string]string // virtual path -> real path
	RepoDir   string
}

// Load builds SSA for the given patterns in repoDir with harness files overlaid.
// harnessDirs maps a package directory relative to the repo ("redis/proto") to a directory
// holding harness .go files that are injected as zz_vsym_<name>.
func Load(repoDir string, patterns []string, harnessDirs map[string]string, tags string) (*Loaded, error) {
	overlay := map[string][]byte{}
	ovPaths := map[string]string{}
	for rel, dir := range harnessDirs {
		ents, err := os.ReadDir(dir)
		if err != nil {
			return nil, err
		}
		for _, e := range ents {
			n := e.Name()
			if !strings.HasSuffix(n, ".go") || strings.HasSuffix(n, "_test.go") {
				continue
			}
			src, err := os.ReadFile(filepath.Join(dir, n))
			if err != nil {
				return nil, err
			}
			virt := filepath.Join(repoDir, rel, "zz_vsym_"+n)
			overlay[virt] = src
			ovPaths[virt] = filepath.Join(dir, n)
		}
	}
	env := []string{}
	for _, kv := range os.Environ() {
		if strings.HasPrefix(kv, "GOFLAGS=") {
			continue
		}
		env = append(env, kv)
	}
	env = append(env, "GOFLAGS=-mod=readonly", "GOPROXY=off", "GOSUMDB=off", "GOTOOLCHAIN=local")
	cfg := &packages.Config{
		Mode:    packages.LoadAllSyntax,
		Dir:     repoDir,
		Overlay: overlay,
		Env:     env,
	}
	if tags != "" {
		cfg.BuildFlags = []string{"-tags=" + tags}
	}
	pkgs, err := packages.Load(cfg, patterns...)
	if err != nil {
		return nil, err
	}
	var errs []string
	packages.Visit(pkgs, nil, func(p *packages.Package) {
		for _, e := range p.Errors {
			errs = append(errs, e.Error())
		}
	})
	if len(errs) > 0 {
		return nil, fmt.Errorf("load errors:\n%s", strings.Join(errs, "\n"))
	}
	prog, spkgs := ssautil.AllPackages(pkgs, ssa.InstantiateGenerics)
	prog.Build()
	ld := &Loaded{Prog: prog, Pkgs: spkgs, PkgByPath: map[string]*ssa.Package{}, Overlay: ovPaths, RepoDir: repoDir}
	for _, p := range prog.AllPackages() {
		ld.PkgByPath[p.Pkg.Path()] = p
	}
	return ld, nil
}
