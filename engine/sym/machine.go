package sym

import (
	"fmt"
	"go/types"
	"os"
	"sort"
	"strings"
	"time"

	"golang.org/x/tools/go/ssa"
)

// ---- outcomes ----

// pathEnd is thrown (host panic) to terminate the current path without running defers.
type pathEnd struct {
	kind string // "done", "assume", "infeasible", "cut", "unwind", "unsupported", "budget"
	msg  string
}

// goPanic models a Go panic travelling up the simulated stack.
type goPanic struct {
	val   Value  // the panic value (interface)
	kind  string // nil-deref, index, slice, makeslice, divide, typeassert, explicit, nil-map
	site  string // innermost function at the point of panic
	stack []string
}

type decision struct {
	feasible []int // alternatives found feasible (indices into the alts offered)
	idx      int   // which of feasible is taken on this path
	label    string
}

// Finding is a violation candidate.
type Finding struct {
	Kind     string            `json:"kind"` // assert | panic | unwind | alloc | race
	ID       string            `json:"id"`   // assertion id / panic kind
	Site     string            `json:"site"` // function (and detail) where it happened
	Msg      string            `json:"msg"`
	Tags     map[string]string `json:"tags"`
	Replay   []ReplayEntry     `json:"replay"`
	Stack    []string          `json:"stack,omitempty"`
	Harness  string            `json:"harness"`
	Params   map[string]string `json:"params"`
	Path     int               `json:"path"`
	Abstract bool              `json:"abstract,omitempty"` // found on a path that used an uninterpreted abstraction
	Sched    bool              `json:"sched,omitempty"`    // found on a path with several goroutines (schedule-dependent)
}

type ReplayEntry struct {
	Kind string `json:"k"` // byte int bool choice float
	Name string `json:"n"`
	Val  int64  `json:"v"`
	U    uint64 `json:"u,omitempty"`
	term *Term
}

// JobConfig parameterises one exploration job.
type JobConfig struct {
	Harness     string            // function name in harness package
	Pkg         string            // package path
	Params      map[string]string // vsymParam values
	Unwind      int
	MaxPaths    int
	MaxSteps    int // per path
	AllocCap    int64
	Timeout     time.Duration
	Overrides   map[string]string // external function name -> harness function name
	FixedVector []ReplayEntry     // concrete mode: all vsym values fixed
	Prefix      []int             // forced decision prefix (indices)
	MaxFindings int
	Twin        bool
	MapOrderMax int // enumerate all map iteration orders up to this many entries
	SplitDepth  int // frontier mode: stop paths at this many decisions and record the prefix
	TraceEvery  int // sample every n-th completed path as a concrete trace for native cross-validation
	MaxTraces   int
}

// Trace is a concrete witness of one explored path, used to cross-validate the engine against the native build.
type Trace struct {
	Harness string
	Params  map[string]string
	Vector  []ReplayEntry
	Covers  []string
	End     string // done | panic
	Panic   string
}

type JobResult struct {
	Harness       string
	Params        map[string]string
	Paths         int
	PathsByEnd    map[string]int
	Decisions     int
	Steps         int64
	Findings      []*Finding
	Covers        map[string]int
	Inconclusive  []string
	Solver        SolverStats
	AssertQueries int
	AssertUnsat   int
	AssertSat     int
	NontrivPaths  int
	Funcs         map[string]bool
	Intrinsics    map[string]bool
	Assumes       int
	Samples       []string
	Wall          time.Duration
	Cuts          map[string]int
	FastDecided   int
	Prefixes      [][]int
	Traces        []*Trace
}

// Machine executes one job: all paths of one harness under one parameter assignment.
type Machine struct {
	prog   *ssa.Program
	ld     *Loaded
	ctx    *Ctx
	solver *Portfolio
	cfg    JobConfig
	res    *JobResult

	// exploration
	decisions []decision
	pos       int

	// per path state
	pc              []*Term
	pcSet           map[int]bool
	globals         map[*ssa.Global]*Cell
	initDone        map[*ssa.Package]bool
	foreignGlobals  map[*ssa.Global]*Cell
	foreignInitDone map[*ssa.Package]bool
	nondet          []ReplayEntry
	fixedPos        int
	tags            map[string]string
	covers          map[string]bool
	steps           int
	noPanic         bool
	unwind          int
	allocCap        int64
	nontriv         bool
	pathNo          int
	uuidCtr         int
	timeCtr         int
	lastNow         *Term
	lastSec         *Term
	lastNsec        *Term
	itoaMemo        map[int]*StrV
	known           map[int]*Term
	fnInfos         map[*ssa.Function]*fnInfo
	typeNames       map[types.Type]string
	deadline        time.Time
	findKeys        map[string]bool
	sched           *scheduler
	extState        map[string]interface{}
	feasCache       map[string]SatResult
	domCache        map[int]bitset
	curG            *G
	pathFailed      bool
	pathAbstract    bool // an uninterpreted abstraction was used on this path: its models need not replay
	traceOff        int
}

type fnInfo struct {
	idx map[ssa.Value]int
	n   int
}

func NewMachine(ld *Loaded, cfg JobConfig, solverKind string) (*Machine, error) {
	ctx := NewCtx()
	var sv *Portfolio
	var err error
	if solverKind == "" || solverKind == "portfolio" || solverKind == "z3-new" {
		sv, err = NewPortfolio(ctx, []string{"z3-new", "cvc5-int", "z3-new", "cvc5-int", "cvc5"}, []int{1000, 1500, 20000, 20000, 20000})
	} else {
		sv, err = NewPortfolio(ctx, []string{solverKind}, []int{20000})
	}
	if err != nil {
		return nil, err
	}
	if p := os.Getenv("SYMGO_SMTLOG"); p != "" {
		f, _ := os.Create(p)
		sv.SetLog(f)
	}
	m := &Machine{prog: ld.Prog, ld: ld, ctx: ctx, solver: sv, cfg: cfg,
		foreignGlobals: map[*ssa.Global]*Cell{}, foreignInitDone: map[*ssa.Package]bool{}, traceOff: -1,
		domCache: map[int]bitset{}, fnInfos: map[*ssa.Function]*fnInfo{}, findKeys: map[string]bool{}, feasCache: map[string]SatResult{}}
	m.res = &JobResult{Harness: cfg.Harness, Params: cfg.Params, PathsByEnd: map[string]int{}, Covers: map[string]int{},
		Funcs: map[string]bool{}, Intrinsics: map[string]bool{}, Cuts: map[string]int{}}
	return m, nil
}

func (m *Machine) Close() { m.solver.Close() }

// Run explores all paths.
func (m *Machine) Run() *JobResult {
	t0 := time.Now()
	if m.cfg.Timeout > 0 {
		m.deadline = t0.Add(m.cfg.Timeout)
	}
	pkg := m.ld.PkgByPath[m.cfg.Pkg]
	if pkg == nil {
		m.res.Inconclusive = append(m.res.Inconclusive, "package not loaded: "+m.cfg.Pkg)
		return m.res
	}
	fn := pkg.Func(m.cfg.Harness)
	if fn == nil {
		m.res.Inconclusive = append(m.res.Inconclusive, "harness not found: "+m.cfg.Harness)
		return m.res
	}
	maxPaths := m.cfg.MaxPaths
	if maxPaths == 0 {
		maxPaths = 1 << 30
	}
	// forced prefix
	for _, p := range m.cfg.Prefix {
		m.decisions = append(m.decisions, decision{feasible: []int{p}, idx: 0, label: "prefix"})
	}
	for {
		m.runPath(fn)
		m.res.Paths++
		if m.res.Paths >= maxPaths {
			m.res.Inconclusive = append(m.res.Inconclusive, fmt.Sprintf("path budget %d exhausted", maxPaths))
			break
		}
		if !m.deadline.IsZero() && time.Now().After(m.deadline) {
			m.res.Inconclusive = append(m.res.Inconclusive, "job time budget exhausted")
			break
		}
		if m.cfg.MaxFindings > 0 && len(m.res.Findings) >= m.cfg.MaxFindings {
			break
		}
		// backtrack
		i := len(m.decisions) - 1
		for i >= 0 && m.decisions[i].idx+1 >= len(m.decisions[i].feasible) {
			i--
		}
		if i < 0 {
			break
		}
		m.decisions = m.decisions[:i+1]
		m.decisions[i].idx++
	}
	m.res.Solver = *m.solver.Stats
	m.res.Wall = time.Since(t0)
	return m.res
}

func (m *Machine) resetPath() {
	m.pos = 0
	m.pc = m.pc[:0]
	m.pcSet = map[int]bool{}
	m.globals = map[*ssa.Global]*Cell{}
	m.initDone = map[*ssa.Package]bool{}
	m.nondet = nil
	m.fixedPos = 0
	m.tags = map[string]string{}
	m.covers = map[string]bool{}
	m.steps = 0
	m.noPanic = true
	m.unwind = m.cfg.Unwind
	if m.unwind == 0 {
		m.unwind = 64
	}
	m.allocCap = m.cfg.AllocCap
	if m.allocCap == 0 {
		m.allocCap = 512<<20 + 2
	}
	m.nontriv = false
	m.uuidCtr = 0
	m.timeCtr = 0
	m.lastNow = nil
	m.lastSec, m.lastNsec = nil, nil
	m.itoaMemo = map[int]*StrV{}
	m.known = map[int]*Term{}
	m.extState = map[string]interface{}{}
	m.sched = nil
	m.pathFailed = false
	m.pathAbstract = false
}

func (m *Machine) runPath(fn *ssa.Function) {
	m.resetPath()
	m.pathNo++
	end := "done"
	var endMsg string
	g := &G{m: m, id: 0}
	m.curG = g
	func() {
		defer func() {
			if r := recover(); r != nil {
				switch e := r.(type) {
				case pathEnd:
					end, endMsg = e.kind, e.msg
				case *goPanic:
					end = "panic"
					endMsg = e.kind + " in " + e.site
					m.report(&Finding{Kind: "panic", ID: e.kind, Site: e.site, Msg: panicText(e), Stack: e.stack})
				default:
					panic(r)
				}
			}
		}()
		g.call(fn, nil, nil)
		if m.sched != nil {
			m.sched.finishMain(g)
		}
	}()
	if m.sched != nil {
		m.sched.killAll()
	}
	switch end {
	case "unsupported":
		m.res.Inconclusive = appendUniq(m.res.Inconclusive, "unsupported: "+endMsg)
	case "unwind":
		m.res.Inconclusive = appendUniq(m.res.Inconclusive, "unwinding bound reached: "+endMsg)
		m.report(&Finding{Kind: "unwind", ID: "unwind", Site: endMsg, Msg: "loop exceeded the unwinding bound"})
	case "deadlock":
		// a goroutine waits for something that can never happen: the request stalls
		m.report(&Finding{Kind: "deadlock", ID: "deadlock", Site: endMsg, Msg: "goroutine blocked forever: " + endMsg})
	case "budget":
		m.res.Inconclusive = appendUniq(m.res.Inconclusive, "step budget: "+endMsg)
	case "cut":
		m.res.Cuts[endMsg]++
	}
	if os.Getenv("SYMGO_DECISIONS") != "" && m.pathNo == 3000 {
		for i, d := range m.decisions {
			fmt.Fprintf(os.Stderr, "dec %d %s feasible=%v idx=%d\n", i, d.label, d.feasible, d.idx)
		}
	}
	m.res.PathsByEnd[end]++
	m.res.Decisions += len(m.decisions)
	m.res.Steps += int64(m.steps)
	if m.nontriv || len(m.pc) > 0 {
		m.res.NontrivPaths++
	}
	for k := range m.covers {
		m.res.Covers[k]++
	}
	if (end == "done" || end == "panic") && m.cfg.TraceEvery > 0 && len(m.res.Traces) < m.cfg.MaxTraces && m.pathNo%m.cfg.TraceEvery == m.traceOffset() && !m.pathFailed && !m.pathAbstract && m.sched == nil {
		if model, ok := m.pathModel(nil); ok {
			var cov []string
			for k := range m.covers {
				cov = append(cov, k)
			}
			sort.Strings(cov)
			m.res.Traces = append(m.res.Traces, &Trace{Harness: m.cfg.Harness, Params: m.cfg.Params, Vector: m.concretize(model), Covers: cov, End: end, Panic: endMsg})
		}
	}
	if len(m.res.Samples) < 6 && end == "done" && len(m.pc) > 0 && (m.pathNo%37 == 1 || len(m.res.Samples) == 0) {
		m.res.Samples = append(m.res.Samples, m.sampleString())
	}
}

func appendUniq(l []string, s string) []string {
	for _, x := range l {
		if x == s {
			return l
		}
	}
	if len(l) > 40 {
		return l
	}
	return append(l, s)
}

// traceOffset spreads the sampled path numbers over the jobs of a check (a job with fewer than
// TraceEvery paths is sampled with probability paths/TraceEvery instead of never): it is a hash of
// the job's harness, parameters and decision prefix, so the choice is the same on every run.
func (m *Machine) traceOffset() int {
	if m.traceOff < 0 {
		h := uint32(2166136261)
		mix := func(s string) {
			for i := 0; i < len(s); i++ {
				h = (h ^ uint32(s[i])) * 16777619
			}
		}
		mix(m.cfg.Harness)
		keys := make([]string, 0, len(m.cfg.Params))
		for k := range m.cfg.Params {
			keys = append(keys, k)
		}
		sort.Strings(keys)
		for _, k := range keys {
			mix(k + "=" + m.cfg.Params[k] + ";")
		}
		for _, d := range m.cfg.Prefix {
			mix(fmt.Sprint(d, ","))
		}
		m.traceOff = int(h % uint32(m.cfg.TraceEvery))
	}
	return m.traceOff
}

func panicText(p *goPanic) string {
	if s, ok := p.val.(*StrV); ok {
		if cs, ok := concreteString(s); ok {
			return cs
		}
	}
	return p.kind
}

func (m *Machine) sampleString() string {
	// a concrete witness for this path
	model, ok := m.pathModel(nil)
	if !ok {
		return fmt.Sprintf("path %d: (no model)", m.pathNo)
	}
	var sb strings.Builder
	fmt.Fprintf(&sb, "path %d tags=%v input=", m.pathNo, m.tags)
	sb.WriteString(renderVector(m.concretize(model)))
	return sb.String()
}

func renderVector(v []ReplayEntry) string {
	var sb strings.Builder
	var bytesRun []byte
	flush := func() {
		if len(bytesRun) > 0 {
			fmt.Fprintf(&sb, "%q ", string(bytesRun))
			bytesRun = nil
		}
	}
	for _, e := range v {
		if e.Kind == "byte" {
			bytesRun = append(bytesRun, byte(e.Val))
			continue
		}
		flush()
		fmt.Fprintf(&sb, "%s=%d ", e.Name, e.Val)
	}
	flush()
	return strings.TrimSpace(sb.String())
}

// ---- path condition & branching ----

func (m *Machine) addPC(t *Term) {
	if t.IsTrue() {
		return
	}
	if t.Op == OAnd {
		m.addPC(t.Args[0])
		m.addPC(t.Args[1])
		return
	}
	if m.pcSet[t.ID] {
		return
	}
	m.pcSet[t.ID] = true
	m.pc = append(m.pc, t)
	// learn equalities var == const
	if t.Op == OEq {
		a, b := t.Args[0], t.Args[1]
		if b.IsConst() && !a.IsConst() {
			m.known[a.ID] = b
		} else if a.IsConst() && !b.IsConst() {
			m.known[b.ID] = a
		}
	} else if t.Sort == SBool && (t.Op == OVar || t.Op == OUF) {
		m.known[t.ID] = m.ctx.True
	} else if t.Op == ONot && (t.Args[0].Op == OVar || t.Args[0].Op == OUF) {
		m.known[t.Args[0].ID] = m.ctx.False
	}
}

// simp rewrites a term using equalities learnt on this path.
func (m *Machine) simp(t *Term) *Term {
	if len(m.known) == 0 || t.IsConst() {
		return t
	}
	return m.ctx.Subst(t, m.known, map[int]*Term{})
}

// slice returns the conjuncts of pc that are transitively connected to t through shared variables.
func (m *Machine) slice(t *Term) []*Term {
	c := m.ctx
	want := map[int]bool{}
	for _, v := range c.Vars(t) {
		want[v] = true
	}
	if len(want) == 0 {
		return nil
	}
	used := make([]bool, len(m.pc))
	var out []*Term
	changed := true
	for changed {
		changed = false
		for i, p := range m.pc {
			if used[i] {
				continue
			}
			vs := c.Vars(p)
			hit := false
			for _, v := range vs {
				if want[v] {
					hit = true
					break
				}
			}
			if hit {
				used[i] = true
				out = append(out, p)
				for _, v := range vs {
					if !want[v] {
						want[v] = true
						changed = true
					}
				}
			}
		}
	}
	return out
}

// feasible asks whether pc ∧ t is satisfiable. Unknown counts as feasible.
func (m *Machine) feasible(t *Term) bool {
	if t.IsTrue() {
		return true
	}
	if t.IsFalse() {
		return false
	}
	if m.pcSet[t.ID] {
		return true
	}
	if m.pcSet[m.ctx.Not(t).ID] {
		return false
	}
	sl := m.slice(t)
	if r, ok := m.fastFeasible(sl, t); ok {
		m.res.FastDecided++
		return r
	}
	key := queryKey(sl, t)
	if r, ok := m.feasCache[key]; ok {
		return r != Unsat
	}
	r, _, err := m.solver.Check(append(sl, t), nil)
	if err != nil {
		m.res.Inconclusive = appendUniq(m.res.Inconclusive, "solver error: "+err.Error())
		r = Unknown
	}
	if len(m.feasCache) < 200000 {
		m.feasCache[key] = r
	}
	return r != Unsat
}

func queryKey(sl []*Term, t *Term) string {
	ids := make([]int, len(sl))
	for i, s := range sl {
		ids[i] = s.ID
	}
	sort.Ints(ids)
	var sb strings.Builder
	for _, id := range ids {
		fmt.Fprintf(&sb, "%d,", id)
	}
	fmt.Fprintf(&sb, "|%d", t.ID)
	return sb.String()
}

// branch chooses one of the alternative conditions (which should be exhaustive), adds it to
// the path condition and returns its index. Alternatives are explored by backtracking.
func (m *Machine) branch(label string, alts ...*Term) int {
	// simplify with known equalities; constant outcome needs no decision
	for i := range alts {
		alts[i] = m.simp(alts[i])
	}
	nTrue := -1
	nonFalse := 0
	for i, a := range alts {
		if a.IsTrue() {
			nTrue = i
		}
		if !a.IsFalse() {
			nonFalse++
		}
	}
	if nTrue >= 0 {
		return nTrue
	}
	if nonFalse == 0 {
		panic(pathEnd{"infeasible", label})
	}
	if m.pos < len(m.decisions) {
		d := &m.decisions[m.pos]
		m.pos++
		ch := d.feasible[d.idx]
		if ch >= len(alts) {
			panic(fmt.Sprintf("decision replay mismatch at %s: choice %d of %d", label, ch, len(alts)))
		}
		m.addPC(alts[ch])
		return ch
	}
	m.checkSplit()
	var feas []int
	if len(alts) == 2 && alts[0] == m.ctx.Not(alts[1]) {
		// binary: if one side is infeasible the other is feasible (pc is satisfiable)
		if m.feasible(alts[0]) {
			feas = append(feas, 0)
			if m.feasible(alts[1]) {
				feas = append(feas, 1)
			}
		} else {
			feas = append(feas, 1)
		}
	} else {
		for i, a := range alts {
			if !a.IsFalse() && m.feasible(a) {
				feas = append(feas, i)
			}
		}
	}
	if len(feas) == 0 {
		panic(pathEnd{"infeasible", label})
	}
	m.decisions = append(m.decisions, decision{feasible: feas, idx: 0, label: label})
	m.pos++
	m.addPC(alts[feas[0]])
	return feas[0]
}

// choose makes an unconditional n-way nondeterministic choice (all alternatives feasible).
func (m *Machine) choose(label string, n int) int {
	if n <= 1 {
		return 0
	}
	if m.pos < len(m.decisions) {
		d := &m.decisions[m.pos]
		m.pos++
		return d.feasible[d.idx]
	}
	m.checkSplit()
	feas := make([]int, n)
	for i := range feas {
		feas[i] = i
	}
	m.decisions = append(m.decisions, decision{feasible: feas, idx: 0, label: label})
	m.pos++
	return 0
}

// checkSplit ends the path in frontier mode once the decision depth is reached.
func (m *Machine) checkSplit() {
	if m.cfg.SplitDepth > 0 && len(m.decisions) >= m.cfg.SplitDepth {
		pre := make([]int, len(m.decisions))
		for i, d := range m.decisions {
			pre[i] = d.feasible[d.idx]
		}
		m.res.Prefixes = append(m.res.Prefixes, pre)
		panic(pathEnd{"split", ""})
	}
}

// cond2 forks on a boolean term and returns which way this path goes.
func (m *Machine) cond2(label string, t *Term) bool {
	return m.branch(label, t, m.ctx.Not(t)) == 0
}

// concretizeInt picks a concrete value for t within [lo,hi] (inclusive), forking over feasible values.
func (m *Machine) concretizeInt(label string, t *Term, lo, hi int64) int64 {
	t = m.simp(t)
	if t.IsConst() {
		return t.SVal()
	}
	alts := make([]*Term, 0, hi-lo+1)
	for v := lo; v <= hi; v++ {
		alts = append(alts, m.ctx.Eq(t, m.ctx.BV(t.W, uint64(v))))
	}
	return lo + int64(m.branch(label, alts...))
}

// pathModel returns a model of pc ∧ extra for all nondet variables of the path.
func (m *Machine) pathModel(extra *Term) (map[string]uint64, bool) {
	var vars []*Term
	seen := map[int]bool{}
	for _, e := range m.nondet {
		if e.term != nil {
			for _, id := range m.ctx.Vars(e.term) {
				if !seen[id] {
					seen[id] = true
					vars = append(vars, m.ctx.terms[id])
				}
			}
		}
	}
	as := append([]*Term{}, m.pc...)
	if extra != nil {
		as = append(as, extra)
	}
	r, model, err := m.solver.Check(as, vars)
	if err != nil || r != Sat {
		return nil, false
	}
	return model, true
}

// concretize turns the nondet log into a replay vector under a model.
func (m *Machine) concretize(model map[string]uint64) []ReplayEntry {
	out := make([]ReplayEntry, len(m.nondet))
	for i, e := range m.nondet {
		out[i] = e
		if e.term != nil {
			v, ok := m.ctx.Eval(e.term, model)
			if !ok {
				v = 0
			}
			out[i].U = v
			switch e.term.Sort {
			case SBV:
				out[i].Val = m.ctx.BV(e.term.W, v).SVal()
				if e.Kind == "byte" {
					out[i].Val = int64(v & 0xff)
				}
			default:
				out[i].Val = int64(v)
			}
		}
		out[i].term = nil
	}
	return out
}

// report records a finding (with a concrete replay vector). cond (may be nil) is the
// violating condition to conjoin to the path condition for the model.
func (m *Machine) reportWith(f *Finding, cond *Term) {
	f.Harness = m.cfg.Harness
	f.Params = m.cfg.Params
	f.Abstract = m.pathAbstract
	f.Sched = m.sched != nil
	f.Path = m.pathNo
	f.Tags = map[string]string{}
	for k, v := range m.tags {
		f.Tags[k] = v
	}
	key := f.Kind + "|" + f.ID + "|" + f.Site + "|" + fmt.Sprint(sortedTags(f.Tags))
	if f.Abstract {
		// a finding on a path through an uninterpreted function must not shadow one with the same
		// signature on an exactly modelled path (only the latter is sure to replay natively)
		if m.findKeys[key] {
			return
		}
		key += "|abstract"
	}
	if m.findKeys[key] {
		return
	}
	if len(m.res.Findings) >= 200 {
		return
	}
	model, ok := m.pathModel(cond)
	if !ok {
		m.res.Inconclusive = appendUniq(m.res.Inconclusive, "no model for finding "+key)
		return
	}
	m.findKeys[key] = true
	f.Replay = m.concretize(model)
	m.res.Findings = append(m.res.Findings, f)
}

func (m *Machine) report(f *Finding) { m.reportWith(f, nil) }

func sortedTags(t map[string]string) []string {
	var out []string
	for k, v := range t {
		out = append(out, k+"="+v)
	}
	sort.Strings(out)
	return out
}

// assert checks that cond holds on every model of the path condition.
func (m *Machine) assert(cond *Term, id string, site string) {
	cond = m.simp(cond)
	m.res.AssertQueries++
	if cond.IsTrue() {
		m.res.AssertUnsat++
		return
	}
	neg := m.ctx.Not(cond)
	var r SatResult
	if cond.IsFalse() {
		r = Sat
	} else {
		m.nontriv = true
		sl := m.slice(neg)
		var err error
		r, _, err = m.solver.Check(append(sl, neg), nil)
		if err != nil {
			m.res.Inconclusive = appendUniq(m.res.Inconclusive, "solver error on assertion "+id+": "+err.Error())
			r = Unknown
		}
	}
	switch r {
	case Unsat:
		m.res.AssertUnsat++
	case Sat:
		m.res.AssertSat++
		m.pathFailed = true
		m.reportWith(&Finding{Kind: "assert", ID: id, Site: site, Msg: "assertion can fail"}, neg)
		if cond.IsFalse() {
			// fails on every run of this path: nothing to assume, keep exploring the path
			return
		}
		// continue under the assumption that it held
		if !m.feasible(cond) {
			panic(pathEnd{"assume", "after failed assertion " + id})
		}
		m.addPC(cond)
	default:
		m.res.Inconclusive = appendUniq(m.res.Inconclusive, "assertion query unknown: "+id)
	}
}

func (m *Machine) info(fn *ssa.Function) *fnInfo {
	if fi, ok := m.fnInfos[fn]; ok {
		return fi
	}
	fi := &fnInfo{idx: map[ssa.Value]int{}}
	add := func(v ssa.Value) {
		fi.idx[v] = fi.n
		fi.n++
	}
	for _, p := range fn.Params {
		add(p)
	}
	for _, fv := range fn.FreeVars {
		add(fv)
	}
	for _, b := range fn.Blocks {
		for _, ins := range b.Instrs {
			if v, ok := ins.(ssa.Value); ok {
				add(v)
			}
		}
	}
	m.fnInfos[fn] = fi
	return fi
}

func (m *Machine) unsupported(format string, args ...interface{}) {
	where := ""
	if m.curG != nil && m.curG.top != nil {
		where = " [in " + m.curG.top.fn.String() + "]"
	}
	panic(pathEnd{"unsupported", fmt.Sprintf(format, args...) + where})
}

func (m *Machine) cut(reason string) {
	panic(pathEnd{"cut", reason})
}
