// Package sym is a bounded symbolic executor for Go SSA with an SMT back end.
package sym

import (
	"fmt"
	"math"
	"math/bits"
	"strconv"
	"strings"
)

// Sort of a term.
type Sort uint8

const (
	SBool Sort = iota
	SBV
	SFP // float64
)

type Op uint8

const (
	OConst Op = iota
	OVar
	OUF // uninterpreted function application
	// bool
	ONot
	OAnd
	OOr
	OEq
	OIte
	OUlt
	OUle
	OSlt
	OSle
	// bv
	OAdd
	OSub
	OMul
	OUDiv
	OURem
	OSDiv
	OSRem
	OBAnd
	OBOr
	OBXor
	OShl
	OLshr
	OAshr
	ONeg
	OBNot
	OConcat
	OExtract
	OZext
	OSext
	// fp
	OFLt
	OFLe
	OFEq
	OFAdd
	OFSub
	OFMul
	OFDiv
	OFNeg
	OFIsNaN
	OFToSBV  // float64 -> signed bv (RTZ), p1 = width
	OFFromSBV // signed bv -> float64 (RNE)
	OFFromBits // bv64 -> float64 reinterpret
)

var opNames = map[Op]string{
	ONot: "not", OAnd: "and", OOr: "or", OEq: "=", OIte: "ite", OUlt: "bvult", OUle: "bvule", OSlt: "bvslt", OSle: "bvsle",
	OAdd: "bvadd", OSub: "bvsub", OMul: "bvmul", OUDiv: "bvudiv", OURem: "bvurem", OSDiv: "bvsdiv", OSRem: "bvsrem",
	OBAnd: "bvand", OBOr: "bvor", OBXor: "bvxor", OShl: "bvshl", OLshr: "bvlshr", OAshr: "bvashr", ONeg: "bvneg", OBNot: "bvnot",
	OConcat: "concat", OFLt: "fp.lt", OFLe: "fp.leq", OFEq: "fp.eq", OFNeg: "fp.neg", OFIsNaN: "fp.isNaN",
}

// Term is a hash-consed SMT term. Terms belong to one Ctx.
type Term struct {
	ID   int
	Op   Op
	Sort Sort
	W    int    // bit width for SBV
	Val  uint64 // constant value (bool: 0/1; bv: value masked; fp: IEEE bits)
	Name string // var / uf name
	Args []*Term
	P1   int
	P2   int
	// unsigned interval of the value (BV only); always valid (full range when unknown)
	ULo, UHi uint64
	// signed interval (BV only); SOk=false when unknown
	SLo, SHi int64
	SOk      bool
	vars     []int // sorted ids of free variables (lazily computed)
	varsDone bool
	NMul     int // number of multiplication / division nodes below (tree count, saturating)
}

// Ctx owns a hash-cons table. Not safe for concurrent use.
type Ctx struct {
	tab   map[string]*Term
	terms []*Term
	True  *Term
	False *Term
	fresh int
}

func NewCtx() *Ctx {
	c := &Ctx{tab: map[string]*Term{}}
	c.True = c.mk(&Term{Op: OConst, Sort: SBool, Val: 1})
	c.False = c.mk(&Term{Op: OConst, Sort: SBool, Val: 0})
	return c
}

func mask(w int) uint64 {
	if w >= 64 {
		return ^uint64(0)
	}
	return (uint64(1) << uint(w)) - 1
}

func (c *Ctx) key(t *Term) string {
	var sb strings.Builder
	sb.WriteString(strconv.Itoa(int(t.Op)))
	sb.WriteByte('|')
	sb.WriteString(strconv.Itoa(int(t.Sort)))
	sb.WriteByte('|')
	sb.WriteString(strconv.Itoa(t.W))
	sb.WriteByte('|')
	sb.WriteString(strconv.FormatUint(t.Val, 16))
	sb.WriteByte('|')
	sb.WriteString(t.Name)
	sb.WriteByte('|')
	sb.WriteString(strconv.Itoa(t.P1))
	sb.WriteByte(',')
	sb.WriteString(strconv.Itoa(t.P2))
	for _, a := range t.Args {
		sb.WriteByte('#')
		sb.WriteString(strconv.Itoa(a.ID))
	}
	return sb.String()
}

func (c *Ctx) mk(t *Term) *Term {
	k := c.key(t)
	if o, ok := c.tab[k]; ok {
		return o
	}
	t.ID = len(c.terms)
	for _, a := range t.Args {
		t.NMul += a.NMul
	}
	switch t.Op {
	case OMul, OUDiv, OURem, OSDiv, OSRem:
		t.NMul++
	}
	if t.NMul > 1000 {
		t.NMul = 1000
	}
	c.terms = append(c.terms, t)
	c.tab[k] = t
	if t.Sort == SBV {
		c.computeRange(t)
	}
	return t
}

func (c *Ctx) NumTerms() int { return len(c.terms) }

func (t *Term) IsConst() bool { return t.Op == OConst }
func (t *Term) IsTrue() bool  { return t.Op == OConst && t.Sort == SBool && t.Val == 1 }
func (t *Term) IsFalse() bool { return t.Op == OConst && t.Sort == SBool && t.Val == 0 }

// SVal returns the constant's signed value.
func (t *Term) SVal() int64 {
	if t.W >= 64 {
		return int64(t.Val)
	}
	sh := uint(64 - t.W)
	return int64(t.Val<<sh) >> sh
}

func (c *Ctx) Bool(b bool) *Term {
	if b {
		return c.True
	}
	return c.False
}

func (c *Ctx) BV(w int, v uint64) *Term {
	return c.mk(&Term{Op: OConst, Sort: SBV, W: w, Val: v & mask(w)})
}

func (c *Ctx) FPConst(f float64) *Term {
	return c.mk(&Term{Op: OConst, Sort: SFP, Val: math.Float64bits(f)})
}

func (c *Ctx) Var(name string, s Sort, w int) *Term {
	return c.mk(&Term{Op: OVar, Sort: s, W: w, Name: name})
}

func (c *Ctx) FreshName(prefix string) string {
	c.fresh++
	return fmt.Sprintf("%s!%d", prefix, c.fresh)
}

func (c *Ctx) UF(name string, s Sort, w int, args []*Term) *Term {
	return c.mk(&Term{Op: OUF, Sort: s, W: w, Name: name, Args: args})
}

func (c *Ctx) computeSRange(t *Term) {
	w := t.W
	minS, maxS := int64(-1)<<uint(w-1), int64(1)<<uint(w-1)-1
	if w >= 64 {
		minS, maxS = math.MinInt64, math.MaxInt64
	}
	fits := func(lo, hi int64) bool { return lo >= minS && hi <= maxS && lo <= hi }
	set := func(lo, hi int64) {
		if fits(lo, hi) {
			t.SLo, t.SHi, t.SOk = lo, hi, true
		}
	}
	addOv := func(a, b int64) (int64, bool) {
		r := a + b
		if (a > 0 && b > 0 && r < 0) || (a < 0 && b < 0 && r >= 0) {
			return 0, false
		}
		return r, true
	}
	mulOv := func(a, b int64) (int64, bool) {
		if a == 0 || b == 0 {
			return 0, true
		}
		r := a * b
		if r/b != a || (a == -1 && b == math.MinInt64) || (b == -1 && a == math.MinInt64) {
			return 0, false
		}
		return r, true
	}
	switch t.Op {
	case OConst:
		set(t.SVal(), t.SVal())
	case OZext:
		a := t.Args[0]
		if a.UHi <= uint64(maxS) {
			set(int64(a.ULo), int64(a.UHi))
		}
	case OSext:
		a := t.Args[0]
		if a.SOk {
			set(a.SLo, a.SHi)
		} else {
			set(int64(-1)<<uint(a.W-1), int64(1)<<uint(a.W-1)-1)
		}
	case ONeg:
		a := t.Args[0]
		if a.SOk && a.SLo != math.MinInt64 {
			set(-a.SHi, -a.SLo)
		}
	case OAdd:
		a, b := t.Args[0], t.Args[1]
		if a.SOk && b.SOk {
			lo, ok1 := addOv(a.SLo, b.SLo)
			hi, ok2 := addOv(a.SHi, b.SHi)
			if ok1 && ok2 {
				set(lo, hi)
			}
		}
	case OSub:
		a, b := t.Args[0], t.Args[1]
		if a.SOk && b.SOk && b.SLo != math.MinInt64 && b.SHi != math.MinInt64 {
			lo, ok1 := addOv(a.SLo, -b.SHi)
			hi, ok2 := addOv(a.SHi, -b.SLo)
			if ok1 && ok2 {
				set(lo, hi)
			}
		}
	case OMul:
		a, b := t.Args[0], t.Args[1]
		if a.SOk && b.SOk {
			var vals [4]int64
			ok := true
			for i, p := range [][2]int64{{a.SLo, b.SLo}, {a.SLo, b.SHi}, {a.SHi, b.SLo}, {a.SHi, b.SHi}} {
				v, o := mulOv(p[0], p[1])
				if !o {
					ok = false
				}
				vals[i] = v
			}
			if ok {
				lo, hi := vals[0], vals[0]
				for _, v := range vals[1:] {
					if v < lo {
						lo = v
					}
					if v > hi {
						hi = v
					}
				}
				set(lo, hi)
			}
		}
	case OIte:
		a, b := t.Args[1], t.Args[2]
		if a.SOk && b.SOk {
			lo, hi := a.SLo, a.SHi
			if b.SLo < lo {
				lo = b.SLo
			}
			if b.SHi > hi {
				hi = b.SHi
			}
			set(lo, hi)
		}
	case OVar, OUF:
		if w < 64 {
			set(minS, maxS)
		}
	}
	if !t.SOk {
		// fall back on the unsigned interval when it does not straddle the sign bit
		if lo, hi, ok := t.sRangeFromU(); ok {
			t.SLo, t.SHi, t.SOk = lo, hi, true
		}
	}
}

func (c *Ctx) computeRange(t *Term) {
	defer c.computeSRange(t)
	m := mask(t.W)
	t.ULo, t.UHi = 0, m
	switch t.Op {
	case OConst:
		t.ULo, t.UHi = t.Val, t.Val
	case OZext:
		t.ULo, t.UHi = t.Args[0].ULo, t.Args[0].UHi
	case OSext:
		a := t.Args[0]
		if a.UHi < uint64(1)<<uint(a.W-1) { // non-negative
			t.ULo, t.UHi = a.ULo, a.UHi
		}
	case OAdd:
		a, b := t.Args[0], t.Args[1]
		hi, carry := bits.Add64(a.UHi, b.UHi, 0)
		if carry == 0 && hi <= m {
			t.ULo, t.UHi = a.ULo+b.ULo, hi
		}
	case OSub:
		a, b := t.Args[0], t.Args[1]
		if a.ULo >= b.UHi {
			t.ULo, t.UHi = a.ULo-b.UHi, a.UHi-b.ULo
		}
	case OMul:
		a, b := t.Args[0], t.Args[1]
		h, l := bits.Mul64(a.UHi, b.UHi)
		if h == 0 && l <= m {
			_, lo := bits.Mul64(a.ULo, b.ULo)
			t.ULo, t.UHi = lo, l
		}
	case OIte:
		a, b := t.Args[1], t.Args[2]
		t.ULo, t.UHi = a.ULo, a.UHi
		if b.ULo < t.ULo {
			t.ULo = b.ULo
		}
		if b.UHi > t.UHi {
			t.UHi = b.UHi
		}
	case OBAnd:
		a, b := t.Args[0], t.Args[1]
		t.UHi = a.UHi
		if b.UHi < t.UHi {
			t.UHi = b.UHi
		}
	case OURem:
		b := t.Args[1]
		if b.ULo > 0 {
			t.UHi = b.UHi - 1
		}
		if t.Args[0].UHi < t.UHi {
			t.UHi = t.Args[0].UHi
		}
	case OUDiv:
		a, b := t.Args[0], t.Args[1]
		if b.ULo > 0 {
			t.ULo, t.UHi = a.ULo/b.UHi, a.UHi/b.ULo
		}
	case OLshr:
		a, b := t.Args[0], t.Args[1]
		if b.IsConst() && b.Val < 64 {
			t.ULo, t.UHi = a.ULo>>b.Val, a.UHi>>b.Val
		} else {
			t.UHi = a.UHi
		}
	case OExtract:
		a := t.Args[0]
		if t.P2 == 0 && a.UHi <= m {
			t.ULo, t.UHi = a.ULo, a.UHi
		}
	}
}

// signed interval helpers (derived from the unsigned one when it does not straddle the sign bit)
func (t *Term) sRange() (lo, hi int64, ok bool) {
	if t.SOk {
		return t.SLo, t.SHi, true
	}
	return t.sRangeFromU()
}

func (t *Term) sRangeFromU() (lo, hi int64, ok bool) {
	sb := uint64(1) << uint(t.W-1)
	if t.UHi < sb {
		return int64(t.ULo), int64(t.UHi), true
	}
	if t.ULo >= sb {
		ext := ^mask(t.W)
		return int64(t.ULo | ext), int64(t.UHi | ext), true
	}
	return 0, 0, false
}

func (c *Ctx) Not(a *Term) *Term {
	if a.IsConst() {
		return c.Bool(a.Val == 0)
	}
	if a.Op == ONot {
		return a.Args[0]
	}
	return c.mk(&Term{Op: ONot, Sort: SBool, Args: []*Term{a}})
}

func (c *Ctx) And(a, b *Term) *Term {
	if a.IsFalse() || b.IsFalse() {
		return c.False
	}
	if a.IsTrue() {
		return b
	}
	if b.IsTrue() {
		return a
	}
	if a == b {
		return a
	}
	if c.Not(a) == b {
		return c.False
	}
	if a.ID > b.ID {
		a, b = b, a
	}
	return c.mk(&Term{Op: OAnd, Sort: SBool, Args: []*Term{a, b}})
}

func (c *Ctx) Or(a, b *Term) *Term {
	if a.IsTrue() || b.IsTrue() {
		return c.True
	}
	if a.IsFalse() {
		return b
	}
	if b.IsFalse() {
		return a
	}
	if a == b {
		return a
	}
	if c.Not(a) == b {
		return c.True
	}
	if a.ID > b.ID {
		a, b = b, a
	}
	return c.mk(&Term{Op: OOr, Sort: SBool, Args: []*Term{a, b}})
}

func (c *Ctx) AndN(ts []*Term) *Term {
	r := c.True
	for _, t := range ts {
		r = c.And(r, t)
	}
	return r
}

func (c *Ctx) Implies(a, b *Term) *Term { return c.Or(c.Not(a), b) }

func (c *Ctx) Ite(cond, a, b *Term) *Term {
	if cond.IsTrue() {
		return a
	}
	if cond.IsFalse() {
		return b
	}
	if a == b {
		return a
	}
	if a.Sort == SBool {
		if a.IsTrue() && b.IsFalse() {
			return cond
		}
		if a.IsFalse() && b.IsTrue() {
			return c.Not(cond)
		}
		return c.Or(c.And(cond, a), c.And(c.Not(cond), b))
	}
	return c.mk(&Term{Op: OIte, Sort: a.Sort, W: a.W, Args: []*Term{cond, a, b}})
}

func (c *Ctx) Eq(a, b *Term) *Term {
	if a == b {
		if a.Sort == SFP {
			// structural equality of FP terms as SMT "=" (not IEEE eq)
			return c.True
		}
		return c.True
	}
	if a.Sort != b.Sort || (a.Sort == SBV && a.W != b.W) {
		panic(fmt.Sprintf("Eq sort mismatch %v/%d vs %v/%d", a.Sort, a.W, b.Sort, b.W))
	}
	if a.IsConst() && b.IsConst() {
		return c.Bool(a.Val == b.Val)
	}
	if a.Sort == SBool {
		if a.IsConst() {
			a, b = b, a
		}
		if b.IsTrue() {
			return a
		}
		if b.IsFalse() {
			return c.Not(a)
		}
	}
	if a.Sort == SBV {
		if a.UHi < b.ULo || b.UHi < a.ULo {
			return c.False
		}
		// (ite c x y) == k with constant arms
		if b.IsConst() && a.Op == OIte && a.Args[1].IsConst() && a.Args[2].IsConst() {
			return c.Ite(a.Args[0], c.Eq(a.Args[1], b), c.Eq(a.Args[2], b))
		}
		if a.IsConst() && b.Op == OIte && b.Args[1].IsConst() && b.Args[2].IsConst() {
			return c.Ite(b.Args[0], c.Eq(b.Args[1], a), c.Eq(b.Args[2], a))
		}
		// zext(x) == const
		if b.IsConst() && a.Op == OZext {
			if b.Val > mask(a.Args[0].W) {
				return c.False
			}
			return c.Eq(a.Args[0], c.BV(a.Args[0].W, b.Val))
		}
		if a.IsConst() && b.Op == OZext {
			return c.Eq(b, a)
		}
		// x + k1 == k2
		if b.IsConst() && a.Op == OAdd && a.Args[1].IsConst() {
			return c.Eq(a.Args[0], c.BV(a.W, b.Val-a.Args[1].Val))
		}
	}
	if a.ID > b.ID {
		a, b = b, a
	}
	return c.mk(&Term{Op: OEq, Sort: SBool, Args: []*Term{a, b}})
}

func (c *Ctx) cmp(op Op, a, b *Term) *Term {
	if a.W != b.W {
		panic("cmp width mismatch")
	}
	if a.IsConst() && b.IsConst() {
		switch op {
		case OUlt:
			return c.Bool(a.Val < b.Val)
		case OUle:
			return c.Bool(a.Val <= b.Val)
		case OSlt:
			return c.Bool(a.SVal() < b.SVal())
		case OSle:
			return c.Bool(a.SVal() <= b.SVal())
		}
	}
	if a == b {
		return c.Bool(op == OUle || op == OSle)
	}
	switch op {
	case OUlt:
		if a.UHi < b.ULo {
			return c.True
		}
		if a.ULo >= b.UHi {
			return c.False
		}
	case OUle:
		if a.UHi <= b.ULo {
			return c.True
		}
		if a.ULo > b.UHi {
			return c.False
		}
	case OSlt, OSle:
		alo, ahi, aok := a.sRange()
		blo, bhi, bok := b.sRange()
		if aok && bok {
			if op == OSlt {
				if ahi < blo {
					return c.True
				}
				if alo >= bhi {
					return c.False
				}
			} else {
				if ahi <= blo {
					return c.True
				}
				if alo > bhi {
					return c.False
				}
			}
		}
	}
	// zext(x) cmp const  -> x cmp const' (unsigned) when both non-negative
	return c.mk(&Term{Op: op, Sort: SBool, Args: []*Term{a, b}})
}

func (c *Ctx) Ult(a, b *Term) *Term { return c.cmp(OUlt, a, b) }
func (c *Ctx) Ule(a, b *Term) *Term { return c.cmp(OUle, a, b) }
func (c *Ctx) Slt(a, b *Term) *Term { return c.cmp(OSlt, a, b) }
func (c *Ctx) Sle(a, b *Term) *Term { return c.cmp(OSle, a, b) }

func (c *Ctx) bin(op Op, a, b *Term) *Term {
	if a.W != b.W {
		panic(fmt.Sprintf("bin width mismatch op=%d %d vs %d", op, a.W, b.W))
	}
	w := a.W
	m := mask(w)
	if a.IsConst() && b.IsConst() {
		x, y := a.Val, b.Val
		var r uint64
		switch op {
		case OAdd:
			r = x + y
		case OSub:
			r = x - y
		case OMul:
			r = x * y
		case OUDiv:
			if y == 0 {
				r = m
			} else {
				r = x / y
			}
		case OURem:
			if y == 0 {
				r = x
			} else {
				r = x % y
			}
		case OSDiv:
			sx, sy := a.SVal(), b.SVal()
			if sy == 0 {
				if sx < 0 {
					r = 1
				} else {
					r = m
				}
			} else if sy == -1 {
				r = uint64(-sx)
			} else {
				r = uint64(sx / sy)
			}
		case OSRem:
			sx, sy := a.SVal(), b.SVal()
			if sy == 0 {
				r = x
			} else if sy == -1 {
				r = 0
			} else {
				r = uint64(sx % sy)
			}
		case OBAnd:
			r = x & y
		case OBOr:
			r = x | y
		case OBXor:
			r = x ^ y
		case OShl:
			if y >= uint64(w) {
				r = 0
			} else {
				r = x << y
			}
		case OLshr:
			if y >= uint64(w) {
				r = 0
			} else {
				r = x >> y
			}
		case OAshr:
			sx := a.SVal()
			if y >= uint64(w) {
				y = uint64(w - 1)
			}
			r = uint64(sx >> y)
		}
		return c.BV(w, r)
	}
	switch op {
	case OAdd:
		if a.IsConst() {
			a, b = b, a
		}
		if b.IsConst() && b.Val == 0 {
			return a
		}
		// (x + k1) + k2
		if b.IsConst() && a.Op == OAdd && a.Args[1].IsConst() {
			return c.bin(OAdd, a.Args[0], c.BV(w, a.Args[1].Val+b.Val))
		}
		if !b.IsConst() && a.ID > b.ID {
			a, b = b, a
		}
	case OSub:
		if b.IsConst() {
			return c.bin(OAdd, a, c.BV(w, -b.Val))
		}
		if a == b {
			return c.BV(w, 0)
		}
	case OMul:
		if a.IsConst() {
			a, b = b, a
		}
		if b.IsConst() {
			if b.Val == 0 {
				return b
			}
			if b.Val == 1 {
				return a
			}
		}
		if !b.IsConst() && a.ID > b.ID {
			a, b = b, a
		}
	case OBAnd:
		if a.IsConst() {
			a, b = b, a
		}
		if b.IsConst() {
			if b.Val == 0 {
				return b
			}
			if b.Val == m {
				return a
			}
		}
		if a == b {
			return a
		}
	case OBOr:
		if a.IsConst() {
			a, b = b, a
		}
		if b.IsConst() {
			if b.Val == 0 {
				return a
			}
			if b.Val == m {
				return b
			}
		}
		if a == b {
			return a
		}
	case OBXor:
		if a.IsConst() {
			a, b = b, a
		}
		if b.IsConst() && b.Val == 0 {
			return a
		}
	case OShl, OLshr, OAshr:
		if b.IsConst() && b.Val == 0 {
			return a
		}
	case OUDiv, OSDiv:
		if b.IsConst() && b.Val == 1 {
			return a
		}
		// signed: (x * k) / k -> x when the signed interval of the product is known (no wrap)
		if op == OSDiv && b.IsConst() && b.SVal() > 0 && a.Op == OMul && a.Args[1].IsConst() && a.Args[1].Val == b.Val && a.SOk {
			return a.Args[0]
		}
		// (x * k) / k  -> x when the multiplication provably did not wrap
		if b.IsConst() && a.Op == OMul && a.Args[1].IsConst() && a.Args[1].Val == b.Val && b.Val != 0 {
			x := a.Args[0]
			h, l := bits.Mul64(x.UHi, b.Val)
			lim := m
			if op == OSDiv {
				lim = m >> 1
			}
			if h == 0 && l <= lim {
				return x
			}
		}
	case OURem, OSRem:
		if b.IsConst() && b.Val == 1 {
			return c.BV(w, 0)
		}
		if op == OSRem && b.IsConst() && b.SVal() > 0 && a.Op == OMul && a.Args[1].IsConst() && a.Args[1].Val == b.Val && a.SOk {
			return c.BV(w, 0)
		}
		if b.IsConst() && a.Op == OMul && a.Args[1].IsConst() && a.Args[1].Val == b.Val && b.Val != 0 {
			x := a.Args[0]
			h, l := bits.Mul64(x.UHi, b.Val)
			lim := m
			if op == OSRem {
				lim = m >> 1
			}
			if h == 0 && l <= lim {
				return c.BV(w, 0)
			}
		}
		// x urem k when x < k
		if op == OURem && b.IsConst() && a.UHi < b.Val {
			return a
		}
	}
	return c.mk(&Term{Op: op, Sort: SBV, W: w, Args: []*Term{a, b}})
}

func (c *Ctx) Add(a, b *Term) *Term  { return c.bin(OAdd, a, b) }
func (c *Ctx) Sub(a, b *Term) *Term  { return c.bin(OSub, a, b) }
func (c *Ctx) Mul(a, b *Term) *Term  { return c.bin(OMul, a, b) }
func (c *Ctx) UDiv(a, b *Term) *Term { return c.bin(OUDiv, a, b) }
func (c *Ctx) URem(a, b *Term) *Term { return c.bin(OURem, a, b) }
func (c *Ctx) SDiv(a, b *Term) *Term { return c.bin(OSDiv, a, b) }
func (c *Ctx) SRem(a, b *Term) *Term { return c.bin(OSRem, a, b) }
func (c *Ctx) BAnd(a, b *Term) *Term { return c.bin(OBAnd, a, b) }
func (c *Ctx) BOr(a, b *Term) *Term  { return c.bin(OBOr, a, b) }
func (c *Ctx) BXor(a, b *Term) *Term { return c.bin(OBXor, a, b) }
func (c *Ctx) Shl(a, b *Term) *Term  { return c.bin(OShl, a, b) }
func (c *Ctx) Lshr(a, b *Term) *Term { return c.bin(OLshr, a, b) }
func (c *Ctx) Ashr(a, b *Term) *Term { return c.bin(OAshr, a, b) }

func (c *Ctx) Neg(a *Term) *Term {
	if a.IsConst() {
		return c.BV(a.W, -a.Val)
	}
	if a.Op == ONeg {
		return a.Args[0]
	}
	return c.mk(&Term{Op: ONeg, Sort: SBV, W: a.W, Args: []*Term{a}})
}

func (c *Ctx) BNot(a *Term) *Term {
	if a.IsConst() {
		return c.BV(a.W, ^a.Val)
	}
	return c.mk(&Term{Op: OBNot, Sort: SBV, W: a.W, Args: []*Term{a}})
}

func (c *Ctx) Extract(a *Term, hi, lo int) *Term {
	w := hi - lo + 1
	if w == a.W {
		return a
	}
	if a.IsConst() {
		return c.BV(w, a.Val>>uint(lo))
	}
	if lo == 0 && (a.Op == OZext || a.Op == OSext) {
		inner := a.Args[0]
		if inner.W == w {
			return inner
		}
		if inner.W > w {
			return c.Extract(inner, hi, 0)
		}
		if a.Op == OZext {
			return c.Zext(inner, w)
		}
		return c.Sext(inner, w)
	}
	return c.mk(&Term{Op: OExtract, Sort: SBV, W: w, Args: []*Term{a}, P1: hi, P2: lo})
}

func (c *Ctx) Zext(a *Term, w int) *Term {
	if w == a.W {
		return a
	}
	if w < a.W {
		return c.Extract(a, w-1, 0)
	}
	if a.IsConst() {
		return c.BV(w, a.Val)
	}
	if a.Op == OZext {
		return c.Zext(a.Args[0], w)
	}
	return c.mk(&Term{Op: OZext, Sort: SBV, W: w, Args: []*Term{a}, P1: w - a.W})
}

func (c *Ctx) Sext(a *Term, w int) *Term {
	if w == a.W {
		return a
	}
	if w < a.W {
		return c.Extract(a, w-1, 0)
	}
	if a.IsConst() {
		return c.BV(w, uint64(a.SVal()))
	}
	if a.UHi < uint64(1)<<uint(a.W-1) {
		return c.Zext(a, w)
	}
	return c.mk(&Term{Op: OSext, Sort: SBV, W: w, Args: []*Term{a}, P1: w - a.W})
}

// ---- floating point ----

// noNaN reports whether a float term can structurally never be NaN.
func noNaN(t *Term) bool {
	switch t.Op {
	case OConst:
		return !math.IsNaN(math.Float64frombits(t.Val))
	case OFFromSBV:
		return true
	case OFNeg:
		return noNaN(t.Args[0])
	case OIte:
		return noNaN(t.Args[1]) && noNaN(t.Args[2])
	case OFDiv:
		// finite / non-zero finite constant
		if t.Args[1].IsConst() {
			d := math.Float64frombits(t.Args[1].Val)
			return d != 0 && !math.IsNaN(d) && !math.IsInf(d, 0) && finite(t.Args[0])
		}
	}
	return false
}

func finite(t *Term) bool {
	switch t.Op {
	case OConst:
		f := math.Float64frombits(t.Val)
		return !math.IsNaN(f) && !math.IsInf(f, 0)
	case OFFromSBV:
		return true
	case OFNeg:
		return finite(t.Args[0])
	case OIte:
		return finite(t.Args[1]) && finite(t.Args[2])
	}
	return false
}

// intOfFP returns a 64-bit integer term x with float64(x) == t exactly (up to the sign of zero),
// when t is structurally an integer-valued float of magnitude <= 2^53.
func (c *Ctx) intOfFP(t *Term) (*Term, bool) {
	const lim = int64(1) << 53
	switch t.Op {
	case OConst:
		f := math.Float64frombits(t.Val)
		if f == math.Trunc(f) && f >= -float64(lim) && f <= float64(lim) {
			return c.BV(64, uint64(int64(f))), true
		}
	case OFFromSBV:
		x := t.Args[0]
		if x.W == 64 && x.SOk && x.SLo >= -lim && x.SHi <= lim {
			return x, true
		}
	case OFNeg:
		if y, ok := c.intOfFP(t.Args[0]); ok {
			return c.Neg(y), true
		}
	}
	return nil, false
}

func (c *Ctx) fcmp(op Op, a, b *Term) *Term {
	if a == b && noNaN(a) {
		return c.Bool(op != OFLt)
	}
	// push comparisons with a constant through ite so that integer-valued leaves become integer comparisons
	if a.Op == OIte && b.IsConst() {
		return c.Ite(a.Args[0], c.fcmp(op, a.Args[1], b), c.fcmp(op, a.Args[2], b))
	}
	if b.Op == OIte && a.IsConst() {
		return c.Ite(b.Args[0], c.fcmp(op, a, b.Args[1]), c.fcmp(op, a, b.Args[2]))
	}
	if !(a.IsConst() && b.IsConst()) {
		if x, ok := c.intOfFP(a); ok {
			if y, ok := c.intOfFP(b); ok {
				switch op {
				case OFLt:
					return c.Slt(x, y)
				case OFLe:
					return c.Sle(x, y)
				case OFEq:
					return c.Eq(x, y)
				}
			}
			// integer-valued a against a non-integral / huge constant
			if b.IsConst() {
				f := math.Float64frombits(b.Val)
				if !math.IsNaN(f) {
					if f > 9.1e15 {
						return c.Bool(op != OFEq)
					}
					if f < -9.1e15 {
						return c.False
					}
				}
			}
		} else if a.IsConst() {
			if _, ok := c.intOfFP(b); ok {
				f := math.Float64frombits(a.Val)
				if !math.IsNaN(f) {
					if f > 9.1e15 {
						return c.False
					}
					if f < -9.1e15 {
						return c.Bool(op != OFEq)
					}
				}
			}
		}
	}
	if a.IsConst() && b.IsConst() {
		x, y := math.Float64frombits(a.Val), math.Float64frombits(b.Val)
		switch op {
		case OFLt:
			return c.Bool(x < y)
		case OFLe:
			return c.Bool(x <= y)
		case OFEq:
			return c.Bool(x == y)
		}
	}
	return c.mk(&Term{Op: op, Sort: SBool, Args: []*Term{a, b}})
}
func (c *Ctx) FLt(a, b *Term) *Term { return c.fcmp(OFLt, a, b) }
func (c *Ctx) FLe(a, b *Term) *Term { return c.fcmp(OFLe, a, b) }
func (c *Ctx) FEq(a, b *Term) *Term { return c.fcmp(OFEq, a, b) }

func (c *Ctx) fbin(op Op, a, b *Term) *Term {
	if a.IsConst() && b.IsConst() {
		x, y := math.Float64frombits(a.Val), math.Float64frombits(b.Val)
		var r float64
		switch op {
		case OFAdd:
			r = x + y
		case OFSub:
			r = x - y
		case OFMul:
			r = x * y
		case OFDiv:
			r = x / y
		}
		return c.FPConst(r)
	}
	return c.mk(&Term{Op: op, Sort: SFP, Args: []*Term{a, b}})
}
func (c *Ctx) FAdd(a, b *Term) *Term { return c.fbin(OFAdd, a, b) }
func (c *Ctx) FSub(a, b *Term) *Term { return c.fbin(OFSub, a, b) }
func (c *Ctx) FMul(a, b *Term) *Term { return c.fbin(OFMul, a, b) }
func (c *Ctx) FDiv(a, b *Term) *Term { return c.fbin(OFDiv, a, b) }
func (c *Ctx) FNeg(a *Term) *Term {
	if a.IsConst() {
		return c.FPConst(-math.Float64frombits(a.Val))
	}
	return c.mk(&Term{Op: OFNeg, Sort: SFP, Args: []*Term{a}})
}
func (c *Ctx) FIsNaN(a *Term) *Term {
	if a.IsConst() {
		return c.Bool(math.IsNaN(math.Float64frombits(a.Val)))
	}
	return c.mk(&Term{Op: OFIsNaN, Sort: SBool, Args: []*Term{a}})
}
func (c *Ctx) FToSBV(a *Term, w int) *Term {
	if a.Op == OIte {
		return c.Ite(a.Args[0], c.FToSBV(a.Args[1], w), c.FToSBV(a.Args[2], w))
	}
	if !a.IsConst() {
		if x, ok := c.intOfFP(a); ok {
			if w < 64 {
				return c.Extract(x, w-1, 0)
			}
			return x
		}
	}
	if a.IsConst() {
		f := math.Float64frombits(a.Val)
		if !math.IsNaN(f) && f > -9.3e18 && f < 9.2e18 {
			return c.BV(w, uint64(int64(f)))
		}
	}
	return c.mk(&Term{Op: OFToSBV, Sort: SBV, W: w, Args: []*Term{a}, P1: w})
}
func (c *Ctx) FFromSBV(a *Term) *Term {
	if a.IsConst() {
		return c.FPConst(float64(a.SVal()))
	}
	return c.mk(&Term{Op: OFFromSBV, Sort: SFP, Args: []*Term{a}})
}

// Vars returns the sorted ids of free variables (OVar terms) of t.
func (c *Ctx) Vars(t *Term) []int {
	if t.varsDone {
		return t.vars
	}
	switch t.Op {
	case OConst:
	case OVar:
		t.vars = []int{t.ID}
	default:
		var acc []int
		for _, a := range t.Args {
			acc = mergeSorted(acc, c.Vars(a))
		}
		t.vars = acc
	}
	t.varsDone = true
	return t.vars
}

func mergeSorted(a, b []int) []int {
	if len(a) == 0 {
		return b
	}
	if len(b) == 0 {
		return a
	}
	out := make([]int, 0, len(a)+len(b))
	i, j := 0, 0
	for i < len(a) && j < len(b) {
		switch {
		case a[i] < b[j]:
			out = append(out, a[i])
			i++
		case a[i] > b[j]:
			out = append(out, b[j])
			j++
		default:
			out = append(out, a[i])
			i++
			j++
		}
	}
	out = append(out, a[i:]...)
	out = append(out, b[j:]...)
	return out
}

func sortName(s Sort, w int) string {
	switch s {
	case SBool:
		return "Bool"
	case SBV:
		return fmt.Sprintf("(_ BitVec %d)", w)
	default:
		return "(_ FloatingPoint 11 53)"
	}
}

func smtName(n string) string { return "|" + n + "|" }

// ref returns the SMT-LIB reference of a term that has been defined (or is a leaf).
func (t *Term) ref() string {
	switch t.Op {
	case OConst:
		switch t.Sort {
		case SBool:
			if t.Val == 1 {
				return "true"
			}
			return "false"
		case SBV:
			if t.W%4 == 0 {
				return fmt.Sprintf("#x%0*x", t.W/4, t.Val)
			}
			return fmt.Sprintf("#b%0*b", t.W, t.Val)
		default:
			return fmt.Sprintf("((_ to_fp 11 53) #x%016x)", t.Val)
		}
	case OVar:
		return smtName(t.Name)
	}
	return "t" + strconv.Itoa(t.ID)
}

// body renders the defining expression of a non-leaf term using refs of its arguments.
func (t *Term) body() string {
	a := func(i int) string { return t.Args[i].ref() }
	switch t.Op {
	case OUF:
		if len(t.Args) == 0 {
			return smtName(t.Name)
		}
		s := "(" + smtName(t.Name)
		for i := range t.Args {
			s += " " + a(i)
		}
		return s + ")"
	case OExtract:
		return fmt.Sprintf("((_ extract %d %d) %s)", t.P1, t.P2, a(0))
	case OZext:
		return fmt.Sprintf("((_ zero_extend %d) %s)", t.P1, a(0))
	case OSext:
		return fmt.Sprintf("((_ sign_extend %d) %s)", t.P1, a(0))
	case OFAdd:
		return fmt.Sprintf("(fp.add RNE %s %s)", a(0), a(1))
	case OFSub:
		return fmt.Sprintf("(fp.sub RNE %s %s)", a(0), a(1))
	case OFMul:
		return fmt.Sprintf("(fp.mul RNE %s %s)", a(0), a(1))
	case OFDiv:
		return fmt.Sprintf("(fp.div RNE %s %s)", a(0), a(1))
	case OFToSBV:
		return fmt.Sprintf("((_ fp.to_sbv %d) RTZ %s)", t.P1, a(0))
	case OFFromSBV:
		return fmt.Sprintf("((_ to_fp 11 53) RNE %s)", a(0))
	case OFFromBits:
		return fmt.Sprintf("((_ to_fp 11 53) %s)", a(0))
	}
	name, ok := opNames[t.Op]
	if !ok {
		panic(fmt.Sprintf("no smt name for op %d", t.Op))
	}
	s := "(" + name
	for i := range t.Args {
		s += " " + a(i)
	}
	return s + ")"
}

// String renders a term for debugging (full expansion, may be large).
func (t *Term) String() string {
	if t.Op == OConst || t.Op == OVar {
		if t.Op == OConst && t.Sort == SBV {
			return strconv.FormatInt(t.SVal(), 10)
		}
		return t.ref()
	}
	var sb strings.Builder
	t.str(&sb, 0)
	return sb.String()
}

func (t *Term) str(sb *strings.Builder, depth int) {
	if t.Op == OConst || t.Op == OVar {
		sb.WriteString(t.String())
		return
	}
	if depth > 6 {
		sb.WriteString("…")
		return
	}
	switch t.Op {
	case OUF:
		sb.WriteString("(" + t.Name)
	case OExtract:
		fmt.Fprintf(sb, "(extract[%d:%d]", t.P1, t.P2)
	case OZext:
		sb.WriteString("(zext")
	case OSext:
		sb.WriteString("(sext")
	default:
		n, ok := opNames[t.Op]
		if !ok {
			n = fmt.Sprintf("op%d", t.Op)
		}
		sb.WriteString("(" + n)
	}
	for _, a := range t.Args {
		sb.WriteByte(' ')
		a.str(sb, depth+1)
	}
	sb.WriteByte(')')
}

// Eval evaluates a term under a variable assignment (var name -> value bits). ok=false when
// the term contains something that cannot be evaluated concretely (UF, missing var).
func (c *Ctx) Eval(t *Term, env map[string]uint64) (uint64, bool) {
	memo := map[int]uint64{}
	var ev func(t *Term) (uint64, bool)
	ev = func(t *Term) (uint64, bool) {
		if v, ok := memo[t.ID]; ok {
			return v, true
		}
		var r uint64
		switch t.Op {
		case OConst:
			r = t.Val
		case OVar:
			v, ok := env[t.Name]
			if !ok {
				return 0, false
			}
			r = v
			if t.Sort == SBV {
				r &= mask(t.W)
			}
		case OUF:
			return 0, false
		default:
			vals := make([]*Term, len(t.Args))
			for i, a := range t.Args {
				v, ok := ev(a)
				if !ok {
					return 0, false
				}
				switch a.Sort {
				case SBool:
					vals[i] = c.Bool(v != 0)
				case SBV:
					vals[i] = c.BV(a.W, v)
				default:
					vals[i] = c.mk(&Term{Op: OConst, Sort: SFP, Val: v})
				}
			}
			nt := c.rebuild(t, vals)
			if !nt.IsConst() {
				return 0, false
			}
			r = nt.Val
		}
		memo[t.ID] = r
		return r, true
	}
	return ev(t)
}

func (c *Ctx) rebuild(t *Term, a []*Term) *Term {
	switch t.Op {
	case ONot:
		return c.Not(a[0])
	case OAnd:
		return c.And(a[0], a[1])
	case OOr:
		return c.Or(a[0], a[1])
	case OEq:
		return c.Eq(a[0], a[1])
	case OIte:
		return c.Ite(a[0], a[1], a[2])
	case OUlt, OUle, OSlt, OSle:
		return c.cmp(t.Op, a[0], a[1])
	case OAdd, OSub, OMul, OUDiv, OURem, OSDiv, OSRem, OBAnd, OBOr, OBXor, OShl, OLshr, OAshr:
		return c.bin(t.Op, a[0], a[1])
	case ONeg:
		return c.Neg(a[0])
	case OBNot:
		return c.BNot(a[0])
	case OConcat:
		return c.Concat(a[0], a[1])
	case OExtract:
		return c.Extract(a[0], t.P1, t.P2)
	case OZext:
		return c.Zext(a[0], t.W)
	case OSext:
		return c.Sext(a[0], t.W)
	case OFLt, OFLe, OFEq:
		return c.fcmp(t.Op, a[0], a[1])
	case OFAdd, OFSub, OFMul, OFDiv:
		return c.fbin(t.Op, a[0], a[1])
	case OFNeg:
		return c.FNeg(a[0])
	case OFIsNaN:
		return c.FIsNaN(a[0])
	case OFToSBV:
		return c.FToSBV(a[0], t.W)
	case OFFromSBV:
		return c.FFromSBV(a[0])
	}
	return t
}

func (c *Ctx) Concat(a, b *Term) *Term {
	if a.IsConst() && b.IsConst() {
		return c.BV(a.W+b.W, a.Val<<uint(b.W)|b.Val)
	}
	return c.mk(&Term{Op: OConcat, Sort: SBV, W: a.W + b.W, Args: []*Term{a, b}})
}

// Subst rewrites t replacing terms per the map (by term id), rebuilding with simplification.
func (c *Ctx) Subst(t *Term, m map[int]*Term, memo map[int]*Term) *Term {
	if r, ok := m[t.ID]; ok {
		return r
	}
	if t.Op == OConst || t.Op == OVar {
		return t
	}
	if r, ok := memo[t.ID]; ok {
		return r
	}
	changed := false
	na := make([]*Term, len(t.Args))
	for i, a := range t.Args {
		na[i] = c.Subst(a, m, memo)
		if na[i] != a {
			changed = true
		}
	}
	r := t
	if changed {
		if t.Op == OUF {
			r = c.UF(t.Name, t.Sort, t.W, na)
		} else {
			r = c.rebuild(t, na)
		}
	}
	memo[t.ID] = r
	return r
}
