package sym

// Fast path for constraints over a single small bit-vector variable: the satisfying set is
// computed by exhaustive evaluation (<= 2^12 values) once per term and cached as a bitset, so
// conjunctions of such constraints are decided without the SMT solver. This is exact.

type bitset []uint64

func (b bitset) and(o bitset) bitset {
	r := make(bitset, len(b))
	for i := range b {
		r[i] = b[i] & o[i]
	}
	return r
}

func (b bitset) empty() bool {
	for _, w := range b {
		if w != 0 {
			return false
		}
	}
	return true
}

const maxDomBits = 8

// evalFast evaluates t with the single variable id bound to val. ok=false for unsupported ops.
func (c *Ctx) evalFast(t *Term, val uint64, memo map[int]uint64) (uint64, bool) {
	switch t.Op {
	case OConst:
		return t.Val, true
	case OVar:
		return val & mask(t.W), true
	}
	if v, ok := memo[t.ID]; ok {
		return v, true
	}
	var a [3]uint64
	if len(t.Args) > 3 {
		return 0, false
	}
	for i, x := range t.Args {
		v, ok := c.evalFast(x, val, memo)
		if !ok {
			return 0, false
		}
		a[i] = v
	}
	w := t.W
	m := mask(w)
	sx := func(v uint64, w int) int64 {
		if w >= 64 {
			return int64(v)
		}
		sh := uint(64 - w)
		return int64(v<<sh) >> sh
	}
	b2u := func(b bool) uint64 {
		if b {
			return 1
		}
		return 0
	}
	var r uint64
	switch t.Op {
	case ONot:
		r = a[0] ^ 1
	case OAnd:
		r = a[0] & a[1]
	case OOr:
		r = a[0] | a[1]
	case OEq:
		r = b2u(a[0] == a[1])
	case OIte:
		if a[0] != 0 {
			r = a[1]
		} else {
			r = a[2]
		}
	case OUlt:
		r = b2u(a[0] < a[1])
	case OUle:
		r = b2u(a[0] <= a[1])
	case OSlt:
		aw := t.Args[0].W
		r = b2u(sx(a[0], aw) < sx(a[1], aw))
	case OSle:
		aw := t.Args[0].W
		r = b2u(sx(a[0], aw) <= sx(a[1], aw))
	case OAdd:
		r = (a[0] + a[1]) & m
	case OSub:
		r = (a[0] - a[1]) & m
	case OMul:
		r = (a[0] * a[1]) & m
	case OBAnd:
		r = a[0] & a[1]
	case OBOr:
		r = a[0] | a[1]
	case OBXor:
		r = a[0] ^ a[1]
	case ONeg:
		r = (-a[0]) & m
	case OBNot:
		r = (^a[0]) & m
	case OZext:
		r = a[0]
	case OSext:
		r = uint64(sx(a[0], t.Args[0].W)) & m
	case OExtract:
		r = (a[0] >> uint(t.P2)) & m
	case OShl:
		if a[1] >= uint64(w) {
			r = 0
		} else {
			r = (a[0] << a[1]) & m
		}
	case OLshr:
		if a[1] >= uint64(w) {
			r = 0
		} else {
			r = a[0] >> a[1]
		}
	case OUDiv:
		if a[1] == 0 {
			r = m
		} else {
			r = a[0] / a[1]
		}
	case OURem:
		if a[1] == 0 {
			r = a[0]
		} else {
			r = a[0] % a[1]
		}
	default:
		return 0, false
	}
	memo[t.ID] = r
	return r, true
}

// domain returns the satisfying set of a boolean term over its single variable, or nil.
func (m *Machine) domain(t *Term) bitset {
	if d, ok := m.domCache[t.ID]; ok {
		return d
	}
	c := m.ctx
	vs := c.Vars(t)
	var d bitset
	if len(vs) == 1 {
		v := c.terms[vs[0]]
		if v.Sort == SBV && v.W <= maxDomBits {
			n := 1 << uint(v.W)
			d = make(bitset, (n+63)/64)
			for x := 0; x < n; x++ {
				r, ok := c.evalFast(t, uint64(x), map[int]uint64{})
				if !ok {
					d = nil
					break
				}
				if r != 0 {
					d[x/64] |= 1 << uint(x%64)
				}
			}
		}
	}
	m.domCache[t.ID] = d
	return d
}

// fastFeasible decides pc-slice ∧ t when everything involved is unary over one small variable.
func (m *Machine) fastFeasible(sl []*Term, t *Term) (res bool, decided bool) {
	d := m.domain(t)
	if d == nil {
		return false, false
	}
	v := m.ctx.Vars(t)[0]
	for _, p := range sl {
		vs := m.ctx.Vars(p)
		if len(vs) != 1 || vs[0] != v {
			return false, false
		}
		pd := m.domain(p)
		if pd == nil {
			return false, false
		}
		d = d.and(pd)
	}
	return !d.empty(), true
}
