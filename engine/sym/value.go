package sym

import (
	"fmt"
	"go/types"

	"golang.org/x/tools/go/ssa"
)

// Value is an interpreter value. Concrete representations:
//
//	*Term      bool / integer / float64
//	*StrV      string (concrete length, symbolic bytes)
//	*SliceV    slice (nil slice: Arr == nil)
//	*Cell      pointer (nil pointer: (*Cell)(nil))
//	*StructV   struct value
//	*ArrayV    array value
//	*IfaceV    interface (nil interface: (*IfaceV)(nil))
//	*MapObj    map (nil map: (*MapObj)(nil))
//	*FuncV     function value / closure (nil func: (*FuncV)(nil))
//	Tuple      multiple results
//	*IterV     range iterator
type Value interface{}

type Tuple []Value

type StrV struct {
	b    []*Term
	lazy func() []*Term
}

func (s *StrV) Bytes() []*Term {
	if s.lazy != nil {
		s.b = s.lazy()
		s.lazy = nil
	}
	return s.b
}

type StructV struct {
	F []Value
}

type ArrayV struct {
	E []Value
}

type IfaceV struct {
	T types.Type
	V Value
}

type FuncV struct {
	Fn       *ssa.Function
	Bindings []Value
	Builtin  *ssa.Builtin
	// bound method closure created by the engine (e.g. intrinsic objects)
	Native func(g *G, args []Value) Value
}

// Cell is an addressable memory location.
type Cell struct {
	T    types.Type
	V    Value   // for non-aggregate types
	Kids []*Cell // for struct / array types
	Ext  interface{}
	// race detection shadow state
	sh *shadow
	// debugging
	Name string
}

// ArrObj is the backing store of slices.
type ArrObj struct {
	ElemT  types.Type
	Cells  []*Cell
	Lazy   bool           // sparse array of symbolic length
	Sparse map[int]*Cell  // for Lazy
	SymLen *Term          // for Lazy: total length
}

type SliceV struct {
	Arr *ArrObj
	Off int
	Len int
	Cap int
	// for lazy arrays: symbolic length and capacity (Len/Cap are then lower bounds = number of materialised cells)
	SymLen *Term
}

func (s *SliceV) IsNil() bool { return s == nil || s.Arr == nil }

type MapEntry struct {
	K Value
	V *Cell
}

type MapObj struct {
	KeyT, ValT types.Type
	Entries    []*MapEntry
	sh         *shadow
}

type IterV struct {
	// map iteration: remaining entries (snapshot) ; string iteration: position
	M       *MapObj
	Remain  []*MapEntry
	Str     *StrV
	Pos     int
}

// ---- type helpers ----

func under(t types.Type) types.Type { return t.Underlying() }

func isAggregate(t types.Type) bool {
	switch under(t).(type) {
	case *types.Struct, *types.Array:
		return true
	}
	return false
}

func intWidth(b *types.Basic) (w int, signed bool, ok bool) {
	switch b.Kind() {
	case types.Int8:
		return 8, true, true
	case types.Int16:
		return 16, true, true
	case types.Int32:
		return 32, true, true
	case types.Int64, types.Int:
		return 64, true, true
	case types.Uint8:
		return 8, false, true
	case types.Uint16:
		return 16, false, true
	case types.Uint32:
		return 32, false, true
	case types.Uint64, types.Uint, types.Uintptr:
		return 64, false, true
	case types.UntypedInt:
		return 64, true, true
	case types.UntypedRune:
		return 32, true, true
	}
	return 0, false, false
}

func (m *Machine) zero(t types.Type) Value {
	c := m.ctx
	switch u := under(t).(type) {
	case *types.Basic:
		if u.Info()&types.IsBoolean != 0 {
			return c.False
		}
		if u.Info()&types.IsString != 0 {
			return &StrV{}
		}
		if u.Info()&types.IsFloat != 0 {
			return c.FPConst(0)
		}
		if w, _, ok := intWidth(u); ok {
			return c.BV(w, 0)
		}
		if u.Kind() == types.UnsafePointer {
			return (*Cell)(nil)
		}
		if u.Kind() == types.UntypedNil {
			return nil
		}
		panic(fmt.Sprintf("zero: unsupported basic type %v", t))
	case *types.Pointer:
		return (*Cell)(nil)
	case *types.Slice:
		return (*SliceV)(nil)
	case *types.Map:
		return (*MapObj)(nil)
	case *types.Signature:
		return (*FuncV)(nil)
	case *types.Interface:
		return (*IfaceV)(nil)
	case *types.Struct:
		s := &StructV{F: make([]Value, u.NumFields())}
		for i := range s.F {
			s.F[i] = m.zero(u.Field(i).Type())
		}
		return s
	case *types.Array:
		a := &ArrayV{E: make([]Value, int(u.Len()))}
		for i := range a.E {
			a.E[i] = m.zero(u.Elem())
		}
		return a
	case *types.Chan:
		return nil
	case *types.Tuple:
		tu := make(Tuple, u.Len())
		for i := range tu {
			tu[i] = m.zero(u.At(i).Type())
		}
		return tu
	}
	panic(fmt.Sprintf("zero: unsupported type %v (%T)", t, under(t)))
}

// newCell allocates a zero-initialised cell of type t.
func (m *Machine) newCell(t types.Type) *Cell {
	c := &Cell{T: t}
	switch u := under(t).(type) {
	case *types.Struct:
		c.Kids = make([]*Cell, u.NumFields())
		for i := range c.Kids {
			c.Kids[i] = m.newCell(u.Field(i).Type())
		}
	case *types.Array:
		n := int(u.Len())
		c.Kids = make([]*Cell, n)
		for i := range c.Kids {
			c.Kids[i] = m.newCell(u.Elem())
		}
	default:
		c.V = m.zero(t)
	}
	return c
}

// load reads the value stored in a cell (deep copy for aggregates).
func (m *Machine) load(c *Cell) Value {
	if c.Kids != nil || isAggregate(c.T) {
		switch under(c.T).(type) {
		case *types.Struct:
			s := &StructV{F: make([]Value, len(c.Kids))}
			for i, k := range c.Kids {
				s.F[i] = m.load(k)
			}
			return s
		case *types.Array:
			a := &ArrayV{E: make([]Value, len(c.Kids))}
			for i, k := range c.Kids {
				a.E[i] = m.load(k)
			}
			return a
		}
	}
	return c.V
}

func (m *Machine) store(c *Cell, v Value) {
	if c.Kids != nil || isAggregate(c.T) {
		switch x := v.(type) {
		case *StructV:
			for i, k := range c.Kids {
				m.store(k, x.F[i])
			}
			c.Ext = nil
			return
		case *ArrayV:
			for i, k := range c.Kids {
				m.store(k, x.E[i])
			}
			return
		}
		panic(fmt.Sprintf("store: aggregate cell %v gets %T", c.T, v))
	}
	c.V = v
}

func (m *Machine) newArr(elemT types.Type, n int) *ArrObj {
	a := &ArrObj{ElemT: elemT, Cells: make([]*Cell, n)}
	// byte arrays: share a zero term, allocate cells lazily? keep simple: allocate all
	for i := range a.Cells {
		a.Cells[i] = m.newCell(elemT)
	}
	return a
}

func (m *Machine) strConst(s string) *StrV {
	b := make([]*Term, len(s))
	for i := 0; i < len(s); i++ {
		b[i] = m.ctx.BV(8, uint64(s[i]))
	}
	return &StrV{b: b}
}

// concreteString returns the Go string if all bytes are constants.
func concreteString(s *StrV) (string, bool) {
	bs := s.Bytes()
	out := make([]byte, len(bs))
	for i, t := range bs {
		if !t.IsConst() {
			return "", false
		}
		out[i] = byte(t.Val)
	}
	return string(out), true
}

func (m *Machine) bytesToSlice(b []*Term) *SliceV {
	bt := types.Typ[types.Uint8]
	a := &ArrObj{ElemT: bt, Cells: make([]*Cell, len(b))}
	for i, t := range b {
		a.Cells[i] = &Cell{T: bt, V: t}
	}
	return &SliceV{Arr: a, Off: 0, Len: len(b), Cap: len(b)}
}

func (m *Machine) sliceBytes(s *SliceV) []*Term {
	if s.IsNil() {
		return nil
	}
	out := make([]*Term, s.Len)
	for i := 0; i < s.Len; i++ {
		out[i] = s.Arr.Cells[s.Off+i].V.(*Term)
	}
	return out
}
