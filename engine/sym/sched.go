package sym

import (
	"fmt"
	"go/types"
	"runtime/debug"
	"sort"
	"strings"
	"sync"

	"golang.org/x/tools/go/ssa"
)

// scheduler runs simulated goroutines as host goroutines, one at a time (token passing).
type scheduler struct {
	m        *Machine
	gs       []*G
	wg       sync.WaitGroup
	preempts int
	bound    int
	abort    interface{}
	dead     bool
	race     bool
	sharedYield bool
	switches int
	// onlyKinds, when set, restricts preemptive scheduling points to these yield kinds
	onlyKinds map[string]bool
}

type shadow struct {
	wG, wClk int
	wSite    string
	reads    map[int]int
	rSites   map[int]string
	syncVC   []int
}

type hostCrash struct {
	val   interface{}
	stack string
}

func (m *Machine) ensureSched(g *G) *scheduler {
	if m.sched == nil {
		s := &scheduler{m: m, bound: 2}
		if v, ok := m.cfg.Params["preempt"]; ok {
			fmt.Sscanf(v, "%d", &s.bound)
		}
		if m.cfg.Params["race"] == "1" {
			s.race = true
		}
		g.wake = make(chan struct{})
		g.vc = []int{1}
		s.gs = []*G{g}
		m.sched = s
	}
	return m.sched
}

func (m *Machine) setPreemptBound(n int) { m.ensureSched(m.curG).bound = n }
func (m *Machine) setSchedKinds(kinds string) {
	s := m.ensureSched(m.curG)
	s.onlyKinds = map[string]bool{}
	for _, k := range strings.Split(kinds, ",") {
		s.onlyKinds[strings.TrimSpace(k)] = true
	}
	// "sharedwrite": a plain store to a memory cell that another goroutine has read or written before
	// is a scheduling point as well (read-modify-write sequences on shared records can then be split)
	s.sharedYield = s.onlyKinds["sharedwrite"]
}
func (m *Machine) enableRace()          { m.ensureSched(m.curG).race = true }

func vcJoin(a, b []int) []int {
	n := len(a)
	if len(b) > n {
		n = len(b)
	}
	out := make([]int, n)
	for i := range out {
		if i < len(a) {
			out[i] = a[i]
		}
		if i < len(b) && b[i] > out[i] {
			out[i] = b[i]
		}
	}
	return out
}

func (g *G) tick() {
	for len(g.vc) <= g.id {
		g.vc = append(g.vc, 0)
	}
	g.vc[g.id]++
}

func (g *G) acquire(vc []int) {
	if g.m.sched == nil {
		return
	}
	g.vc = vcJoin(g.vc, vc)
}

func (g *G) release(dst *[]int) {
	if g.m.sched == nil {
		return
	}
	*dst = vcJoin(*dst, g.vc)
	g.tick()
}

func (g *G) spawn(fv Value, args []Value) {
	m := g.m
	s := m.ensureSched(g)
	if len(s.gs) >= 24 {
		m.unsupported("more than 24 goroutines")
	}
	ng := &G{m: m, id: len(s.gs), wake: make(chan struct{})}
	if f, ok := fv.(*FuncV); ok && f != nil && f.Fn != nil {
		ng.name = f.Fn.String()
	}
	ng.vc = append([]int{}, g.vc...)
	for len(ng.vc) <= ng.id {
		ng.vc = append(ng.vc, 0)
	}
	ng.vc[ng.id] = 1
	g.tick()
	s.gs = append(s.gs, ng)
	s.wg.Add(1)
	go func() {
		<-ng.wake
		defer s.wg.Done()
		defer func() {
			r := recover()
			ng.done = true
			if s.dead {
				return
			}
			if r != nil {
				switch e := r.(type) {
				case pathEnd:
					if e.kind != "killed" {
						s.abort = e
					}
				case *goPanic:
					m.report(&Finding{Kind: "panic", ID: e.kind, Site: e.site, Msg: panicText(e) + " (in goroutine " + ng.name + ")", Stack: e.stack})
					s.abort = pathEnd{"panic", "goroutine panic: " + e.kind + " in " + e.site}
				default:
					s.abort = hostCrash{r, string(debug.Stack())}
				}
			}
			s.exit(ng)
		}()
		if s.dead {
			panic(pathEnd{"killed", ""})
		}
		m.curG = ng
		ng.callValue(fv, args)
	}()
	g.yield("go")
}

// runnable computes the goroutines that can run now; quiescing goroutines only when nothing else can.
func (s *scheduler) runnable() []*G {
	var r, q []*G
	for _, x := range s.gs {
		if x.done {
			continue
		}
		if x.quiescing {
			q = append(q, x)
			continue
		}
		if x.blocked == nil || x.blocked() {
			r = append(r, x)
		}
	}
	if len(r) == 0 {
		return q
	}
	return r
}

func (s *scheduler) transfer(cur, next *G) {
	if next == cur {
		return
	}
	s.switches++
	next.wake <- struct{}{}
	s.park(cur)
}

func (s *scheduler) park(cur *G) {
	<-cur.wake
	if s.dead {
		panic(pathEnd{"killed", ""})
	}
	s.m.curG = cur
	if cur.id == 0 && s.abort != nil {
		a := s.abort
		s.abort = nil
		s.raise(a)
	}
}

func (s *scheduler) raise(a interface{}) {
	switch e := a.(type) {
	case pathEnd:
		panic(e)
	case hostCrash:
		panic(fmt.Sprintf("engine crash in goroutine: %v\n%s", e.val, e.stack))
	}
	panic(a)
}

// yield is a scheduling point: another runnable goroutine may be chosen.
func (g *G) yield(kind string) {
	s := g.m.sched
	if s == nil {
		return
	}
	s.schedule(g, kind)
}

func (s *scheduler) schedule(cur *G, kind string) {
	m := s.m
	r := s.runnable()
	if len(r) == 0 {
		// everything is blocked: deadlock (or the main goroutine waits for something that never comes)
		if cur.id == 0 {
			panic(pathEnd{"deadlock", "all goroutines blocked at " + kind})
		}
		s.abort = pathEnd{"deadlock", "all goroutines blocked at " + kind}
		cur.done = true
		s.gs[0].wake <- struct{}{}
		<-cur.wake
		panic(pathEnd{"killed", ""})
	}
	curRunnable := false
	for _, x := range r {
		if x == cur {
			curRunnable = true
		}
	}
	var next *G
	if curRunnable {
		if s.preempts >= s.bound || len(r) == 1 || (s.onlyKinds != nil && !s.onlyKinds[kind]) {
			next = cur
		} else {
			// order: current first
			ord := []*G{cur}
			for _, x := range r {
				if x != cur {
					ord = append(ord, x)
				}
			}
			next = ord[m.choose("sched:"+kind, len(ord))]
			if next != cur {
				s.preempts++
			}
		}
	} else {
		next = r[m.choose("sched-blocked:"+kind, len(r))]
	}
	m.nondet = append(m.nondet, ReplayEntry{Kind: "sched", Name: kind, Val: int64(next.id)})
	s.transfer(cur, next)
}

// exit hands the token on when a goroutine ends.
func (s *scheduler) exit(cur *G) {
	if s.abort != nil {
		s.gs[0].wake <- struct{}{}
		return
	}
	r := s.runnable()
	if len(r) == 0 {
		s.abort = pathEnd{"deadlock", "all goroutines blocked after exit of " + cur.name}
		s.gs[0].wake <- struct{}{}
		return
	}
	next := r[0]
	func() {
		defer func() {
			if rr := recover(); rr != nil {
				s.abort = rr
				next = s.gs[0]
			}
		}()
		next = r[s.m.choose("sched-exit", len(r))]
	}()
	s.m.nondet = append(s.m.nondet, ReplayEntry{Kind: "sched", Name: "exit", Val: int64(next.id)})
	next.wake <- struct{}{}
}

func (s *scheduler) finishMain(g *G) {}

func (s *scheduler) killAll() {
	s.dead = true
	for _, x := range s.gs[1:] {
		if !x.done {
			select {
			case x.wake <- struct{}{}:
			default:
				// not parked yet (never started): start it so it can die
				go func(x *G) { x.wake <- struct{}{} }(x)
			}
		}
	}
	s.wg.Wait()
}

// block parks the goroutine until pred() holds and the scheduler picks it.
func (g *G) block(kind string, pred func() bool) {
	s := g.m.ensureSched(g)
	if pred() {
		return
	}
	g.blocked = pred
	s.schedule(g, kind)
	g.blocked = nil
}

func (g *G) await(cell *Cell) {
	m := g.m
	pred := func() bool {
		t, _ := cell.V.(*Term)
		return t != nil && t.IsTrue()
	}
	if m.sched == nil {
		if !pred() {
			panic(pathEnd{"deadlock", "vsymAwait with a single goroutine"})
		}
		return
	}
	g.yield("await")
	g.block("await", pred)
	if cell.sh != nil {
		g.acquire(cell.sh.syncVC)
	}
}

func (g *G) syncRelease(cell *Cell) {
	if g.m.sched == nil {
		return
	}
	if cell.sh == nil {
		cell.sh = &shadow{}
	}
	g.release(&cell.sh.syncVC)
}

// quiesce parks the caller until no other goroutine can run.
func (g *G) quiesce() {
	s := g.m.sched
	if s == nil {
		return
	}
	g.quiescing = true
	s.schedule(g, "quiesce")
	g.quiescing = false
	// everything that happened before is ordered before what follows (the harness observes final state)
	for _, x := range s.gs {
		g.vc = vcJoin(g.vc, x.vc)
	}
}

func (g *G) liveGoroutines() int {
	s := g.m.sched
	if s == nil {
		return 1
	}
	n := 0
	for _, x := range s.gs {
		if !x.done {
			n++
		}
	}
	return n
}

// ---- race detection ----

func (g *G) accessSite() string {
	for f := g.top; f != nil; f = f.caller {
		if f.fn.Pkg == nil {
			continue
		}
		if !strings.HasPrefix(f.fn.Pkg.Pkg.Path(), g.m.ld.ModulePath()) {
			continue
		}
		if pos := f.fn.Pos(); pos.IsValid() && strings.Contains(g.m.prog.Fset.Position(pos).Filename, "zz_vsym_") {
			continue
		}
		return f.fn.String()
	}
	return ""
}

func (g *G) hb(gid, clk int) bool {
	if gid == g.id {
		return true
	}
	return gid < len(g.vc) && clk <= g.vc[gid]
}

func (g *G) raceOn() bool {
	return g.m.sched != nil && (g.m.sched.race || g.m.sched.sharedYield) && g.inInit == 0
}

// yieldBeforeSharedWrite makes a store a scheduling point when the target was touched by another goroutine.
func (g *G) yieldBeforeSharedWrite(c *Cell) {
	s := g.m.sched
	if s == nil || !s.sharedYield || g.inInit != 0 {
		return
	}
	if g.touchedByOther(c) {
		g.yield("sharedwrite")
	}
}

func (g *G) touchedByOther(c *Cell) bool {
	if sh := c.sh; sh != nil {
		if sh.wG >= 0 && sh.wG != g.id {
			return true
		}
		for rg := range sh.reads {
			if rg != g.id {
				return true
			}
		}
	}
	for _, k := range c.Kids {
		if g.touchedByOther(k) {
			return true
		}
	}
	return false
}

func (g *G) reportRace(what string, a, b string) {
	if !g.m.sched.race {
		return // shadow state is kept for scheduling only
	}
	if a == "" || b == "" {
		return // accesses from harness code only
	}
	p := []string{a, b}
	sort.Strings(p)
	g.m.report(&Finding{Kind: "race", ID: "race", Site: p[0] + " <-> " + p[1], Msg: "unordered conflicting accesses to " + what, Stack: g.stackTrace()})
}

func (g *G) shadowOf(c *Cell) *shadow {
	if c.sh == nil {
		c.sh = &shadow{wG: -1}
	}
	return c.sh
}

func (g *G) onRead(c *Cell) {
	if !g.raceOn() {
		return
	}
	g.readShadow(g.shadowOf(c), cellName(c))
	for _, k := range c.Kids {
		g.onRead(k)
	}
}

func cellName(c *Cell) string {
	if c.Name != "" {
		return c.Name
	}
	return fmt.Sprintf("%v", c.T)
}

func (g *G) readShadow(sh *shadow, what string) {
	site := g.accessSite()
	if sh.wG >= 0 && sh.wG != g.id && !g.hb(sh.wG, sh.wClk) {
		g.reportRace(what, sh.wSite, site)
	}
	if sh.reads == nil {
		sh.reads = map[int]int{}
		sh.rSites = map[int]string{}
	}
	sh.reads[g.id] = g.vc[g.id]
	sh.rSites[g.id] = site
}

func (g *G) writeShadow(sh *shadow, what string) {
	site := g.accessSite()
	if sh.wG >= 0 && sh.wG != g.id && !g.hb(sh.wG, sh.wClk) {
		g.reportRace(what, sh.wSite, site)
	}
	for rg, clk := range sh.reads {
		if rg != g.id && !g.hb(rg, clk) {
			g.reportRace(what, sh.rSites[rg], site)
		}
	}
	sh.wG, sh.wClk, sh.wSite = g.id, g.vc[g.id], site
	sh.reads, sh.rSites = nil, nil
}

func (g *G) onWrite(c *Cell) {
	if !g.raceOn() {
		return
	}
	g.writeShadow(g.shadowOf(c), cellName(c))
	for _, k := range c.Kids {
		g.onWrite(k)
	}
}

func (g *G) onReadSlice(s *SliceV) {
	if !g.raceOn() || s.IsNil() || s.SymLen != nil {
		return
	}
	for i := 0; i < s.Len; i++ {
		g.onRead(s.Arr.Cells[s.Off+i])
	}
}

func (g *G) onReadMap(mo *MapObj) {
	if !g.raceOn() {
		return
	}
	if mo.sh == nil {
		mo.sh = &shadow{wG: -1}
	}
	g.readShadow(mo.sh, "map")
}

func (g *G) onWriteMap(mo *MapObj) {
	if !g.raceOn() {
		return
	}
	if mo.sh == nil {
		mo.sh = &shadow{wG: -1}
	}
	g.writeShadow(mo.sh, "map")
}

// ---- sync intrinsics ----

type mutexState struct {
	locked  bool
	readers int
	vc      []int // released by Unlock; acquired by Lock and RLock
	rvc     []int // released by RUnlock; acquired by Lock only (two read-locked sections are not ordered)
}

func mutexOf(c *Cell) *mutexState {
	if ms, ok := c.Ext.(*mutexState); ok {
		return ms
	}
	ms := &mutexState{}
	c.Ext = ms
	return ms
}

func recvCell(g *G, v Value) *Cell {
	c, _ := v.(*Cell)
	if c == nil {
		g.throw("nil-deref", "invalid memory address or nil pointer dereference")
	}
	return c
}

func inMutexLock(g *G, fn *ssa.Function, args []Value) Value {
	ms := mutexOf(recvCell(g, args[0]))
	g.yield("lock")
	if ms.locked || ms.readers > 0 {
		if g.m.sched == nil {
			panic(pathEnd{"deadlock", "Lock of a locked mutex with a single goroutine"})
		}
		g.block("lock", func() bool { return !ms.locked && ms.readers == 0 })
	}
	ms.locked = true
	g.acquire(ms.vc)
	g.acquire(ms.rvc)
	return nil
}

func inMutexTryLock(g *G, fn *ssa.Function, args []Value) Value {
	ms := mutexOf(recvCell(g, args[0]))
	g.yield("trylock")
	if ms.locked || ms.readers > 0 {
		return g.m.ctx.False
	}
	ms.locked = true
	g.acquire(ms.vc)
	g.acquire(ms.rvc)
	return g.m.ctx.True
}

func inMutexUnlock(g *G, fn *ssa.Function, args []Value) Value {
	ms := mutexOf(recvCell(g, args[0]))
	if !ms.locked {
		panic(&goPanic{val: &IfaceV{T: types.Typ[types.String], V: g.m.strConst("sync: unlock of unlocked mutex")}, kind: "fatal", site: g.siteOfModule(), stack: g.stackTrace()})
	}
	ms.locked = false
	g.release(&ms.vc)
	// no scheduling point after an unlock: switching here is equivalent to switching at the
	// goroutine's next synchronisation operation
	return nil
}

func inRLock(g *G, fn *ssa.Function, args []Value) Value {
	ms := mutexOf(recvCell(g, args[0]))
	g.yield("rlock")
	if ms.locked {
		if g.m.sched == nil {
			panic(pathEnd{"deadlock", "RLock of a locked mutex with a single goroutine"})
		}
		g.block("rlock", func() bool { return !ms.locked })
	}
	ms.readers++
	g.acquire(ms.vc)
	return nil
}

func inRUnlock(g *G, fn *ssa.Function, args []Value) Value {
	ms := mutexOf(recvCell(g, args[0]))
	if ms.readers <= 0 {
		panic(&goPanic{val: &IfaceV{T: types.Typ[types.String], V: g.m.strConst("sync: RUnlock of unlocked RWMutex")}, kind: "fatal", site: g.siteOfModule(), stack: g.stackTrace()})
	}
	ms.readers--
	g.release(&ms.rvc)
	return nil
}

// sync.Map as an ordered map object hanging off the receiver cell
type syncMapState struct {
	mo *MapObj
	vc []int
}

func syncMapOf(g *G, c *Cell) *syncMapState {
	if st, ok := c.Ext.(*syncMapState); ok {
		return st
	}
	anyT := types.NewInterfaceType(nil, nil)
	st := &syncMapState{mo: &MapObj{KeyT: anyT, ValT: anyT}}
	c.Ext = st
	return st
}

func (g *G) syncMapOp(args []Value) *syncMapState {
	st := syncMapOf(g, recvCell(g, args[0]))
	g.yield("syncmap")
	g.acquire(st.vc)
	return st
}

func inSyncMapLoad(g *G, fn *ssa.Function, args []Value) Value {
	st := g.syncMapOp(args)
	defer g.release(&st.vc)
	if e := g.mapFind(st.mo, args[1]); e != nil {
		return Tuple{g.m.load(e.V), g.m.ctx.True}
	}
	return Tuple{(*IfaceV)(nil), g.m.ctx.False}
}

func inSyncMapStore(g *G, fn *ssa.Function, args []Value) Value {
	st := g.syncMapOp(args)
	defer g.release(&st.vc)
	g.mapStoreNoRace(st.mo, args[1], args[2])
	return nil
}

func (g *G) mapStoreNoRace(mo *MapObj, key, val Value) {
	m := g.m
	if e := g.mapFind(mo, key); e != nil {
		m.store(e.V, val)
		return
	}
	cell := m.newCell(mo.ValT)
	m.store(cell, val)
	mo.Entries = append(mo.Entries, &MapEntry{K: key, V: cell})
}

func inSyncMapLoadOrStore(g *G, fn *ssa.Function, args []Value) Value {
	st := g.syncMapOp(args)
	defer g.release(&st.vc)
	if e := g.mapFind(st.mo, args[1]); e != nil {
		return Tuple{g.m.load(e.V), g.m.ctx.True}
	}
	g.mapStoreNoRace(st.mo, args[1], args[2])
	return Tuple{args[2], g.m.ctx.False}
}

func inSyncMapLoadAndDelete(g *G, fn *ssa.Function, args []Value) Value {
	st := g.syncMapOp(args)
	defer g.release(&st.vc)
	if e := g.mapFind(st.mo, args[1]); e != nil {
		v := g.m.load(e.V)
		removeEntry(st.mo, e)
		return Tuple{v, g.m.ctx.True}
	}
	return Tuple{(*IfaceV)(nil), g.m.ctx.False}
}

func removeEntry(mo *MapObj, e *MapEntry) {
	for i, x := range mo.Entries {
		if x == e {
			mo.Entries = append(append([]*MapEntry{}, mo.Entries[:i]...), mo.Entries[i+1:]...)
			return
		}
	}
}

func inSyncMapSwap(g *G, fn *ssa.Function, args []Value) Value {
	st := g.syncMapOp(args)
	defer g.release(&st.vc)
	if e := g.mapFind(st.mo, args[1]); e != nil {
		old := g.m.load(e.V)
		g.m.store(e.V, args[2])
		return Tuple{old, g.m.ctx.True}
	}
	g.mapStoreNoRace(st.mo, args[1], args[2])
	return Tuple{(*IfaceV)(nil), g.m.ctx.False}
}

func inSyncMapCompareAndSwap(g *G, fn *ssa.Function, args []Value) Value {
	st := g.syncMapOp(args)
	defer g.release(&st.vc)
	if e := g.mapFind(st.mo, args[1]); e != nil {
		cur := g.m.load(e.V)
		anyT := st.mo.ValT
		if g.m.cond2("syncmap-cas", g.equal(anyT, cur, args[2])) {
			g.m.store(e.V, args[3])
			return g.m.ctx.True
		}
	}
	return g.m.ctx.False
}

func inSyncMapDelete(g *G, fn *ssa.Function, args []Value) Value {
	st := g.syncMapOp(args)
	defer g.release(&st.vc)
	if e := g.mapFind(st.mo, args[1]); e != nil {
		removeEntry(st.mo, e)
	}
	return nil
}

func inSyncMapRange(g *G, fn *ssa.Function, args []Value) Value {
	st := g.syncMapOp(args)
	g.release(&st.vc)
	snap := append([]*MapEntry{}, st.mo.Entries...)
	// iteration order of sync.Map is unspecified: enumerate orders for small maps
	for len(snap) > 0 {
		pick := 0
		if len(snap) > 1 && len(st.mo.Entries) <= 3 {
			pick = g.m.choose("syncmap-order", len(snap))
		}
		e := snap[pick]
		snap = append(append([]*MapEntry{}, snap[:pick]...), snap[pick+1:]...)
		alive := false
		for _, cur := range st.mo.Entries {
			if cur == e {
				alive = true
			}
		}
		if !alive {
			continue
		}
		r := g.callValue(args[1], []Value{e.K, g.m.load(e.V)}).(*Term)
		if !g.m.cond2("syncmap-range", r) {
			break
		}
	}
	return nil
}

type onceState struct{ done bool }

func inOnceDo(g *G, fn *ssa.Function, args []Value) Value {
	c := recvCell(g, args[0])
	st, _ := c.Ext.(*onceState)
	if st == nil {
		st = &onceState{}
		c.Ext = st
	}
	g.yield("once")
	if !st.done {
		st.done = true
		g.callValue(args[1], nil)
	}
	return nil
}

type wgState struct {
	n  int
	vc []int
}

func wgOf(c *Cell) *wgState {
	st, _ := c.Ext.(*wgState)
	if st == nil {
		st = &wgState{}
		c.Ext = st
	}
	return st
}

func inWGAdd(g *G, fn *ssa.Function, args []Value) Value {
	st := wgOf(recvCell(g, args[0]))
	d := g.m.simp(args[1].(*Term))
	if !d.IsConst() {
		g.m.unsupported("WaitGroup.Add with symbolic delta")
	}
	st.n += int(d.SVal())
	g.release(&st.vc)
	if st.n < 0 {
		panic(&goPanic{val: &IfaceV{T: types.Typ[types.String], V: g.m.strConst("sync: negative WaitGroup counter")}, kind: "explicit", site: g.siteOfModule(), stack: g.stackTrace()})
	}
	g.yield("wg")
	return nil
}

func inWGDone(g *G, fn *ssa.Function, args []Value) Value {
	return inWGAdd(g, fn, []Value{args[0], g.m.ctx.BV(64, ^uint64(0))})
}

func inWGWait(g *G, fn *ssa.Function, args []Value) Value {
	st := wgOf(recvCell(g, args[0]))
	g.yield("wgwait")
	if st.n > 0 {
		if g.m.sched == nil {
			panic(pathEnd{"deadlock", "WaitGroup.Wait with a single goroutine"})
		}
		g.block("wgwait", func() bool { return st.n <= 0 })
	}
	g.acquire(st.vc)
	return nil
}

// sync/atomic primitives on plain cells
func (g *G) atomicCell(v Value) (*Cell, *shadow) {
	c := recvCell(g, v)
	if c.sh == nil {
		c.sh = &shadow{wG: -1}
	}
	g.yield("atomic")
	g.acquire(c.sh.syncVC)
	return c, c.sh
}

func inAtomicLoad(g *G, fn *ssa.Function, args []Value) Value {
	c, sh := g.atomicCell(args[0])
	v := g.m.load(c)
	g.release(&sh.syncVC)
	return v
}

func inAtomicStore(g *G, fn *ssa.Function, args []Value) Value {
	c, sh := g.atomicCell(args[0])
	g.m.store(c, args[1])
	g.release(&sh.syncVC)
	return nil
}

func inAtomicAdd(g *G, fn *ssa.Function, args []Value) Value {
	c, sh := g.atomicCell(args[0])
	v := g.m.ctx.Add(g.m.load(c).(*Term), args[1].(*Term))
	g.m.store(c, v)
	g.release(&sh.syncVC)
	return v
}

func inAtomicSwap(g *G, fn *ssa.Function, args []Value) Value {
	c, sh := g.atomicCell(args[0])
	old := g.m.load(c)
	g.m.store(c, args[1])
	g.release(&sh.syncVC)
	return old
}

func inAtomicCAS(g *G, fn *ssa.Function, args []Value) Value {
	c, sh := g.atomicCell(args[0])
	defer g.release(&sh.syncVC)
	cur := g.m.load(c)
	eq := g.equal(c.T, cur, args[1])
	if g.m.cond2("cas", eq) {
		g.m.store(c, args[2])
		return g.m.ctx.True
	}
	return g.m.ctx.False
}

func registerSyncIntrinsics() {
	intrinsics["(*sync.Mutex).Lock"] = inMutexLock
	intrinsics["(*sync.Mutex).TryLock"] = inMutexTryLock
	intrinsics["(*sync.Mutex).Unlock"] = inMutexUnlock
	intrinsics["(*sync.RWMutex).Lock"] = inMutexLock
	intrinsics["(*sync.RWMutex).Unlock"] = inMutexUnlock
	intrinsics["(*sync.RWMutex).RLock"] = inRLock
	intrinsics["(*sync.RWMutex).RUnlock"] = inRUnlock
	intrinsics["(*sync.Map).Load"] = inSyncMapLoad
	intrinsics["(*sync.Map).Store"] = inSyncMapStore
	intrinsics["(*sync.Map).LoadOrStore"] = inSyncMapLoadOrStore
	intrinsics["(*sync.Map).LoadAndDelete"] = inSyncMapLoadAndDelete
	intrinsics["(*sync.Map).Delete"] = inSyncMapDelete
	intrinsics["(*sync.Map).Swap"] = inSyncMapSwap
	intrinsics["(*sync.Map).CompareAndSwap"] = inSyncMapCompareAndSwap
	intrinsics["(*sync.Map).Range"] = inSyncMapRange
	intrinsics["(*sync.Once).Do"] = inOnceDo
	intrinsics["(*sync.WaitGroup).Add"] = inWGAdd
	intrinsics["(*sync.WaitGroup).Done"] = inWGDone
	intrinsics["(*sync.WaitGroup).Wait"] = inWGWait
	for _, t := range []string{"Int32", "Int64", "Uint32", "Uint64", "Uintptr", "Pointer"} {
		intrinsics["sync/atomic.Load"+t] = inAtomicLoad
		intrinsics["sync/atomic.Store"+t] = inAtomicStore
		intrinsics["sync/atomic.Swap"+t] = inAtomicSwap
		intrinsics["sync/atomic.CompareAndSwap"+t] = inAtomicCAS
		if t != "Pointer" {
			intrinsics["sync/atomic.Add"+t] = inAtomicAdd
		}
	}
}

// sync.Pool: items put back are handed out again (LIFO); Put -> Get of the same item is a happens-before edge.
type poolState struct {
	items []Value
	vcs   [][]int
}

func poolOf(c *Cell) *poolState {
	st, _ := c.Ext.(*poolState)
	if st == nil {
		st = &poolState{}
		c.Ext = st
	}
	return st
}

func init() {
	intrinsics["(*sync.Pool).Get"] = func(g *G, fn *ssa.Function, args []Value) Value {
		c := recvCell(g, args[0])
		st := poolOf(c)
		g.yield("pool")
		if n := len(st.items); n > 0 {
			it := st.items[n-1]
			g.acquire(st.vcs[n-1])
			st.items, st.vcs = st.items[:n-1], st.vcs[:n-1]
			return it
		}
		// New is the last field of sync.Pool
		newFn := g.m.load(c.Kids[len(c.Kids)-1])
		if f, _ := newFn.(*FuncV); f != nil {
			return g.callValue(f, nil)
		}
		return (*IfaceV)(nil)
	}
	intrinsics["(*sync.Pool).Put"] = func(g *G, fn *ssa.Function, args []Value) Value {
		c := recvCell(g, args[0])
		st := poolOf(c)
		var vc []int
		g.release(&vc)
		st.items = append(st.items, args[1])
		st.vcs = append(st.vcs, vc)
		g.yield("pool")
		return nil
	}
}
