package sym

import (
	"bufio"
	"fmt"
	"io"
	"os"
	"os/exec"
	"strconv"
	"strings"
	"time"
)

// Result of a check-sat.
type SatResult int

const (
	Unsat SatResult = iota
	Sat
	Unknown
)

func (r SatResult) String() string { return [...]string{"unsat", "sat", "unknown"}[r] }

// Solver wraps one long-lived SMT solver process speaking SMT-LIB2 over a pipe.
type Solver struct {
	Kind    string // z3-new | z3 | cvc5
	cmd     *exec.Cmd
	in      io.WriteCloser
	out     *bufio.Reader
	ctx     *Ctx
	defined map[int]bool    // term ids defined at level 0
	ufs     map[string]bool // declared UFs
	nDefs   int
	Stats   *SolverStats
	timeout int // ms per query
	Log     io.Writer
}

type SolverStats struct {
	Queries  int
	Sat      int
	Unsat    int
	Unknown  int
	Time     time.Duration
	MaxQuery time.Duration
	Restarts int
}

func solverArgs(kind string, timeoutMs int) (string, []string) {
	switch kind {
	case "cvc5":
		return "cvc5", []string{"--incremental", "--lang=smt2", "--produce-models", fmt.Sprintf("--tlimit-per=%d", timeoutMs)}
	case "cvc5-int":
		// bit-vectors solved as integers with mod-2^k semantics: decides decimal (multiply-by-constant) kernels that bit-blasting does not
		return "cvc5", []string{"--incremental", "--lang=smt2", "--produce-models", "--solve-bv-as-int=sum", fmt.Sprintf("--tlimit-per=%d", timeoutMs)}
	case "z3":
		return "z3", []string{"-in", fmt.Sprintf("-t:%d", timeoutMs)}
	default:
		return "z3-new", []string{"-in", fmt.Sprintf("-t:%d", timeoutMs)}
	}
}

func NewSolver(kind string, ctx *Ctx, timeoutMs int) (*Solver, error) {
	s := &Solver{Kind: kind, ctx: ctx, Stats: &SolverStats{}, timeout: timeoutMs}
	if err := s.start(); err != nil {
		return nil, err
	}
	return s, nil
}

func (s *Solver) start() error {
	bin, args := solverArgs(s.Kind, s.timeout)
	cmd := exec.Command(bin, args...)
	in, err := cmd.StdinPipe()
	if err != nil {
		return err
	}
	out, err := cmd.StdoutPipe()
	if err != nil {
		return err
	}
	cmd.Stderr = cmd.Stdout
	if err := cmd.Start(); err != nil {
		return err
	}
	s.cmd, s.in, s.out = cmd, in, bufio.NewReaderSize(out, 1<<16)
	s.defined = map[int]bool{}
	s.ufs = map[string]bool{}
	s.nDefs = 0
	s.send("(set-option :produce-models true)\n(set-logic ALL)\n")
	return nil
}

func (s *Solver) Close() {
	if s.cmd != nil {
		s.in.Close()
		s.cmd.Process.Kill()
		s.cmd.Wait()
		s.cmd = nil
	}
}

func (s *Solver) restart() {
	s.Close()
	s.Stats.Restarts++
	if err := s.start(); err != nil {
		panic(err)
	}
}

func (s *Solver) send(txt string) {
	if s.Log != nil {
		io.WriteString(s.Log, txt)
	}
	io.WriteString(s.in, txt)
}

func (s *Solver) readLine() string {
	line, err := s.out.ReadString('\n')
	if err != nil {
		return "(error \"solver died: " + err.Error() + "\")"
	}
	return strings.TrimSpace(line)
}

// define emits level-0 definitions for t and its sub-terms.
func (s *Solver) define(t *Term, sb *strings.Builder) {
	if t.Op == OConst {
		return
	}
	if s.defined[t.ID] {
		return
	}
	// iterative post-order to avoid deep recursion
	type fr struct {
		t *Term
		i int
	}
	stack := []fr{{t, 0}}
	for len(stack) > 0 {
		top := &stack[len(stack)-1]
		if top.t.Op == OConst || s.defined[top.t.ID] {
			stack = stack[:len(stack)-1]
			continue
		}
		if top.i < len(top.t.Args) {
			a := top.t.Args[top.i]
			top.i++
			if a.Op != OConst && !s.defined[a.ID] {
				stack = append(stack, fr{a, 0})
			}
			continue
		}
		x := top.t
		stack = stack[:len(stack)-1]
		switch x.Op {
		case OVar:
			fmt.Fprintf(sb, "(declare-const %s %s)\n", smtName(x.Name), sortName(x.Sort, x.W))
		case OUF:
			if !s.ufs[x.Name] {
				s.ufs[x.Name] = true
				fmt.Fprintf(sb, "(declare-fun %s (", smtName(x.Name))
				for i, a := range x.Args {
					if i > 0 {
						sb.WriteByte(' ')
					}
					sb.WriteString(sortName(a.Sort, a.W))
				}
				fmt.Fprintf(sb, ") %s)\n", sortName(x.Sort, x.W))
			}
			fmt.Fprintf(sb, "(define-fun t%d () %s %s)\n", x.ID, sortName(x.Sort, x.W), x.body())
		default:
			fmt.Fprintf(sb, "(define-fun t%d () %s %s)\n", x.ID, sortName(x.Sort, x.W), x.body())
		}
		s.defined[x.ID] = true
		s.nDefs++
	}
}

// Check asks whether the conjunction of assertions is satisfiable. If wantModel is non-nil
// and the result is sat, the values of those variables are returned.
func (s *Solver) Check(asserts []*Term, modelVars []*Term) (SatResult, map[string]uint64, error) {
	if s.nDefs > 200000 {
		s.restart()
	}
	var sb strings.Builder
	for _, a := range asserts {
		s.define(a, &sb)
	}
	for _, v := range modelVars {
		s.define(v, &sb)
	}
	sb.WriteString("(push 1)\n")
	for _, a := range asserts {
		fmt.Fprintf(&sb, "(assert %s)\n", a.ref())
	}
	sb.WriteString("(check-sat)\n")
	t0 := time.Now()
	s.send(sb.String())
	res := Unknown
	var errLine string
	for {
		line := s.readLine()
		if line == "" {
			continue
		}
		switch {
		case line == "sat":
			res = Sat
		case line == "unsat":
			res = Unsat
		case line == "unknown" || line == "timeout":
			res = Unknown
		case strings.HasPrefix(line, "(error"):
			errLine = line
			if strings.Contains(line, "solver died") {
				s.restart()
				s.account(t0, Unknown)
				return Unknown, nil, fmt.Errorf("%s", errLine)
			}
			continue
		default:
			// warnings etc.
			continue
		}
		break
	}
	dt := time.Since(t0)
	_ = dt
	var model map[string]uint64
	if res == Sat && len(modelVars) > 0 {
		model = map[string]uint64{}
		// ask in chunks
		for i := 0; i < len(modelVars); i += 64 {
			j := i + 64
			if j > len(modelVars) {
				j = len(modelVars)
			}
			var q strings.Builder
			q.WriteString("(get-value (")
			for _, v := range modelVars[i:j] {
				q.WriteString(v.ref())
				q.WriteByte(' ')
			}
			q.WriteString("))\n")
			s.send(q.String())
			txt := s.readSexp()
			if strings.HasPrefix(txt, "(error") {
				errLine = txt
				break
			}
			vals := parseValues(txt)
			if len(vals) != j-i {
				errLine = "(error \"bad get-value reply: " + txt + "\")"
				break
			}
			for k, v := range modelVars[i:j] {
				model[v.Name] = vals[k]
			}
		}
	}
	s.send("(pop 1)\n")
	s.account(t0, res)
	if errLine != "" {
		return Unknown, nil, fmt.Errorf("%s", errLine)
	}
	return res, model, nil
}

func (s *Solver) account(t0 time.Time, r SatResult) {
	dt := time.Since(t0)
	s.Stats.Queries++
	s.Stats.Time += dt
	if dt > s.Stats.MaxQuery {
		s.Stats.MaxQuery = dt
	}
	switch r {
	case Sat:
		s.Stats.Sat++
	case Unsat:
		s.Stats.Unsat++
	default:
		s.Stats.Unknown++
	}
}

// readSexp reads one balanced s-expression (possibly spanning lines).
func (s *Solver) readSexp() string {
	var sb strings.Builder
	depth := 0
	started := false
	inBar := false
	for {
		line, err := s.out.ReadString('\n')
		if err != nil {
			return "(error \"solver died\")"
		}
		for _, ch := range line {
			if inBar {
				if ch == '|' {
					inBar = false
				}
				continue
			}
			switch ch {
			case '|':
				inBar = true
			case '(':
				depth++
				started = true
			case ')':
				depth--
			}
		}
		sb.WriteString(line)
		if started && depth <= 0 {
			break
		}
	}
	return strings.TrimSpace(sb.String())
}

// parseValues extracts, in order, the values from a get-value reply: ((name val) (name val) ...).
func parseValues(txt string) []uint64 {
	toks := tokenize(txt)
	// parse into nested lists
	pos := 0
	var parse func() interface{}
	parse = func() interface{} {
		if pos >= len(toks) {
			return nil
		}
		t := toks[pos]
		pos++
		if t == "(" {
			var l []interface{}
			for pos < len(toks) && toks[pos] != ")" {
				l = append(l, parse())
			}
			pos++
			return l
		}
		return t
	}
	root, ok := parse().([]interface{})
	if !ok {
		return nil
	}
	var out []uint64
	for _, p := range root {
		pair, ok := p.([]interface{})
		if !ok || len(pair) != 2 {
			return nil
		}
		v, ok := evalValue(pair[1])
		if !ok {
			return nil
		}
		out = append(out, v)
	}
	return out
}

func tokenize(s string) []string {
	var toks []string
	i := 0
	for i < len(s) {
		ch := s[i]
		switch {
		case ch == '(' || ch == ')':
			toks = append(toks, string(ch))
			i++
		case ch == ' ' || ch == '\n' || ch == '\t' || ch == '\r':
			i++
		case ch == '|':
			j := i + 1
			for j < len(s) && s[j] != '|' {
				j++
			}
			toks = append(toks, s[i:j+1])
			i = j + 1
		default:
			j := i
			for j < len(s) && !strings.ContainsRune("() \n\t\r", rune(s[j])) {
				j++
			}
			toks = append(toks, s[i:j])
			i = j
		}
	}
	return toks
}

func evalValue(v interface{}) (uint64, bool) {
	switch x := v.(type) {
	case string:
		switch {
		case x == "true":
			return 1, true
		case x == "false":
			return 0, true
		case strings.HasPrefix(x, "#x"):
			n, err := strconv.ParseUint(x[2:], 16, 64)
			return n, err == nil
		case strings.HasPrefix(x, "#b"):
			n, err := strconv.ParseUint(x[2:], 2, 64)
			return n, err == nil
		}
		return 0, false
	case []interface{}:
		// (_ bv123 64)
		if len(x) == 3 {
			if h, _ := x[0].(string); h == "_" {
				if n, _ := x[1].(string); strings.HasPrefix(n, "bv") {
					v, err := strconv.ParseUint(n[2:], 10, 64)
					return v, err == nil
				}
				// (_ +zero 11 53) etc.
				if n, _ := x[1].(string); true {
					switch n {
					case "+zero":
						return 0, true
					case "-zero":
						return 1 << 63, true
					case "+oo":
						return 0x7ff0000000000000, true
					case "-oo":
						return 0xfff0000000000000, true
					case "NaN":
						return 0x7ff8000000000001, true
					}
				}
			}
		}
		// (fp sign exp mant)
		if len(x) == 4 {
			if h, _ := x[0].(string); h == "fp" {
				sg, ok1 := evalValue(x[1])
				ex, ok2 := evalValue(x[2])
				mn, ok3 := evalValue(x[3])
				if ok1 && ok2 && ok3 {
					return sg<<63 | ex<<52 | mn, true
				}
			}
		}
	}
	return 0, false
}

// Portfolio tries several solver processes in order until one gives a definite answer.
type Portfolio struct {
	Solvers []*Solver
	Stats   *SolverStats
	ByKind  map[string]int
}

func NewPortfolio(ctx *Ctx, kinds []string, timeouts []int) (*Portfolio, error) {
	p := &Portfolio{Stats: &SolverStats{}, ByKind: map[string]int{}}
	for i, k := range kinds {
		s, err := NewSolver(k, ctx, timeouts[i])
		if err != nil {
			p.Close()
			return nil, err
		}
		p.Solvers = append(p.Solvers, s)
	}
	return p, nil
}

func (p *Portfolio) Close() {
	for _, s := range p.Solvers {
		s.Close()
	}
}

func (p *Portfolio) SetLog(w io.Writer) {
	for _, s := range p.Solvers {
		s.Log = w
	}
}

func (p *Portfolio) Check(asserts []*Term, modelVars []*Term) (SatResult, map[string]uint64, error) {
	t0 := time.Now()
	var lastErr error
	res := Unknown
	var model map[string]uint64
	order := p.Solvers
	hard := 0
	for _, a := range asserts {
		if a.NMul > hard {
			hard = a.NMul
		}
	}
	if hard >= 8 && len(p.Solvers) >= 4 && p.Solvers[1].Kind == "cvc5-int" {
		// decimal kernels (long multiply-by-constant chains): the integer encoding first; short limits before long ones
		order = []*Solver{p.Solvers[1], p.Solvers[0], p.Solvers[3], p.Solvers[2]}
		order = append(order, p.Solvers[4:]...)
	}
	for _, s := range order {
		r, m, err := s.Check(asserts, modelVars)
		if err != nil {
			lastErr = err
			continue
		}
		if r != Unknown {
			res, model, lastErr = r, m, nil
			p.ByKind[s.Kind]++
			break
		}
	}
	dt := time.Since(t0)
	if dt > time.Second && os.Getenv("SYMGO_SLOWQ") != "" {
		n := 0
		for _, a := range asserts {
			n += len(a.vars)
		}
		fmt.Fprintf(os.Stderr, "slow query %.1fs asserts=%d vars=%d res=%v byKind=%v\n", dt.Seconds(), len(asserts), n, res, p.ByKind)
		if f, err := os.Create(fmt.Sprintf("/tmp/slowq-%d.txt", p.Stats.Queries)); err == nil {
			for _, a := range asserts {
				fmt.Fprintln(f, a.String())
			}
			f.Close()
		}
	}
	p.Stats.Queries++
	p.Stats.Time += dt
	if dt > p.Stats.MaxQuery {
		p.Stats.MaxQuery = dt
	}
	switch res {
	case Sat:
		p.Stats.Sat++
	case Unsat:
		p.Stats.Unsat++
	default:
		p.Stats.Unknown++
	}
	return res, model, lastErr
}
