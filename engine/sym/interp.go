package sym

import (
	"fmt"
	"os"
	"sort"
	"go/constant"
	"go/token"
	"go/types"
	"math"
	"strings"

	"golang.org/x/tools/go/ssa"
)

// stepProfile, when non-nil, counts executed instructions per function (debugging aid).
var stepProfile map[string]int

func init() {
	if os.Getenv("SYMGO_PROFILE") != "" {
		stepProfile = map[string]int{}
	}
}

// DumpProfile prints the step profile.
func DumpProfile() {
	type kv struct {
		k string
		v int
	}
	var l []kv
	for k, v := range stepProfile {
		l = append(l, kv{k, v})
	}
	sort.Slice(l, func(i, j int) bool { return l[i].v > l[j].v })
	for i, e := range l {
		if i > 25 {
			break
		}
		fmt.Fprintf(os.Stderr, "%10d %s\n", e.v, e.k)
	}
}

// G is a simulated goroutine.
type G struct {
	m     *Machine
	id    int
	top   *Frame
	depth int
	// scheduler state
	wake     chan struct{}
	blocked  func() bool // non-nil: predicate that must become true to run
	done     bool
	vc       []int
	name     string
	curPanic *Frame
	quiescing bool
	inInit    int
	initDirect *ssa.Function
}

type deferred struct {
	fn   Value // *FuncV or invoke target
	args []Value
	// invoke
	method *types.Func
	recv   Value
}

type Frame struct {
	fn        *ssa.Function
	info      *fnInfo
	regs      []Value
	defers    []deferred
	block     *ssa.BasicBlock
	prev      *ssa.BasicBlock
	visits    []int
	panicking *goPanic
	caller    *Frame
	pos       token.Pos
}

func (g *G) stackTrace() []string {
	var out []string
	for f := g.top; f != nil; f = f.caller {
		out = append(out, f.fn.String())
	}
	return out
}

// innermost function of module under test on the stack (for site identification)
func (g *G) site() string {
	for f := g.top; f != nil; f = f.caller {
		if f.fn.Pkg != nil {
			return f.fn.String()
		}
	}
	if g.top != nil {
		return g.top.fn.String()
	}
	return "?"
}

func (g *G) throw(kind string, msg string) {
	val := &IfaceV{T: nil, V: g.m.strConst("runtime error: " + msg)}
	panic(&goPanic{val: val, kind: kind, site: g.siteOfModule(), stack: g.stackTrace()})
}

// siteOfModule returns the innermost frame that belongs to the module under test (not std, not harness files).
func (g *G) siteOfModule() string {
	for f := g.top; f != nil; f = f.caller {
		if f.fn.Pkg == nil {
			continue
		}
		p := f.fn.Pkg.Pkg.Path()
		if strings.HasPrefix(p, g.m.ld.ModulePath()) {
			// skip harness functions
			if pos := f.fn.Pos(); pos.IsValid() {
				file := g.m.prog.Fset.Position(pos).Filename
				if strings.Contains(file, "zz_vsym_") {
					continue
				}
			}
			return f.fn.String()
		}
	}
	return g.site()
}

func (ld *Loaded) ModulePath() string { return "github.com/cybergarage/go-redis" }

// call invokes an SSA function with evaluated arguments.
func (g *G) call(fn *ssa.Function, args []Value, bindings []Value) (ret Value) {
	m := g.m
	if fn.Pkg != nil && fn.Name() == "init" && fn.Pkg.Func("init") == fn && g.initDirect != fn {
		// a package initialiser calling the initialisers of its imports: run each once, sandboxed
		done := m.initDone
		if !strings.HasPrefix(fn.Pkg.Pkg.Path(), m.ld.ModulePath()) {
			done = m.foreignInitDone
		}
		if !done[fn.Pkg] {
			done[fn.Pkg] = true
			m.runInit(g, fn.Pkg)
		}
		return nil
	}
	if v, ok := g.tryVsym(fn, args); ok {
		return v
	}
	if v, ok := g.tryIntrinsic(fn, args); ok {
		return v
	}
	if fn.Blocks == nil {
		m.unsupported("external function without intrinsic: %s", fn.String())
	}
	if g.depth > 400 {
		m.unsupported("call depth exceeded in %s", fn.String())
	}
	if fn.Pkg != nil && strings.HasPrefix(fn.Pkg.Pkg.Path(), m.ld.ModulePath()) {
		m.res.Funcs[fn.String()] = true
	} else if fn.Pkg == nil && fn.Parent() == nil && fn.Origin() == nil {
		// wrappers / bound methods
	}
	fi := m.info(fn)
	fr := &Frame{fn: fn, info: fi, regs: make([]Value, fi.n), caller: g.top, visits: make([]int, len(fn.Blocks))}
	if len(args) != len(fn.Params) {
		panic(fmt.Sprintf("arity mismatch calling %s: %d args for %d params", fn, len(args), len(fn.Params)))
	}
	copy(fr.regs, args)
	copy(fr.regs[len(fn.Params):], bindings)
	g.top = fr
	g.depth++
	defer func() {
		g.depth--
		g.top = fr.caller
		if r := recover(); r != nil {
			gp, ok := r.(*goPanic)
			if !ok {
				panic(r)
			}
			g.top = fr
			g.depth++
			fr.panicking = gp
			g.runDefers(fr)
			g.depth--
			g.top = fr.caller
			if fr.panicking != nil {
				panic(fr.panicking)
			}
			// recovered
			if fn.Recover != nil {
				g.top = fr
				g.depth++
				fr.prev = fr.block
				fr.block = fn.Recover
				ret = g.exec(fr)
				g.depth--
				g.top = fr.caller
			} else {
				ret = m.zeroResults(fn.Signature)
			}
		}
	}()
	fr.block = fn.Blocks[0]
	return g.exec(fr)
}

func (m *Machine) zeroResults(sig *types.Signature) Value {
	res := sig.Results()
	switch res.Len() {
	case 0:
		return nil
	case 1:
		return m.zero(res.At(0).Type())
	}
	return m.zero(res)
}

func (g *G) runDefers(fr *Frame) {
	for len(fr.defers) > 0 {
		d := fr.defers[len(fr.defers)-1]
		fr.defers = fr.defers[:len(fr.defers)-1]
		saved := g.curPanic
		g.curPanic = fr
		g.callValue(d.fn, d.args)
		g.curPanic = saved
	}
}

// callValue calls a function value (closure, function, builtin wrapper).
func (g *G) callValue(fv Value, args []Value) Value {
	f, _ := fv.(*FuncV)
	if f == nil {
		g.throw("nil-deref", "invalid memory address or nil pointer dereference (nil func)")
	}
	if f.Native != nil {
		return f.Native(g, args)
	}
	if f.Builtin != nil {
		return g.builtin(f.Builtin, args, nil)
	}
	return g.call(f.Fn, args, f.Bindings)
}

func (g *G) get(fr *Frame, v ssa.Value) Value {
	switch x := v.(type) {
	case *ssa.Const:
		return g.m.constValue(x)
	case *ssa.Global:
		return g.m.global(g, x)
	case *ssa.Function:
		return &FuncV{Fn: x}
	case *ssa.Builtin:
		return &FuncV{Builtin: x}
	}
	i, ok := fr.info.idx[v]
	if !ok {
		panic(fmt.Sprintf("no register for %s (%T) in %s", v.Name(), v, fr.fn))
	}
	return fr.regs[i]
}

func (fr *Frame) set(v ssa.Value, val Value) { fr.regs[fr.info.idx[v]] = val }

func (m *Machine) constValue(c *ssa.Const) Value {
	t := c.Type()
	if c.Value == nil {
		return m.zero(t)
	}
	switch u := under(t).(type) {
	case *types.Basic:
		info := u.Info()
		switch {
		case info&types.IsBoolean != 0:
			return m.ctx.Bool(constant.BoolVal(c.Value))
		case info&types.IsString != 0:
			return m.strConst(constant.StringVal(c.Value))
		case info&types.IsInteger != 0:
			w, _, _ := intWidth(u)
			if i, ok := constant.Int64Val(constant.ToInt(c.Value)); ok {
				return m.ctx.BV(w, uint64(i))
			}
			uv, _ := constant.Uint64Val(constant.ToInt(c.Value))
			return m.ctx.BV(w, uv)
		case info&types.IsFloat != 0:
			f, _ := constant.Float64Val(c.Value)
			if u.Kind() == types.Float32 {
				f = float64(float32(f))
			}
			return m.ctx.FPConst(f)
		}
	case *types.Interface:
		// typed constant converted to interface cannot appear as Const
	}
	m.unsupported("constant of type %v", t)
	return nil
}

// global returns the cell of a package-level variable, running its package initialiser on first use.
func (m *Machine) global(g *G, gl *ssa.Global) *Cell {
	pkg := gl.Pkg
	own := strings.HasPrefix(pkg.Pkg.Path(), m.ld.ModulePath())
	globals, done := m.globals, m.initDone
	if !own {
		// initialisers of foreign packages run once per job; their globals are treated as immutable
		globals, done = m.foreignGlobals, m.foreignInitDone
	}
	if c, ok := globals[gl]; ok {
		return c
	}
	if !done[pkg] {
		done[pkg] = true
		m.runInit(g, pkg)
		if c, ok := globals[gl]; ok {
			return c
		}
	}
	c := m.newCell(gl.Type().(*types.Pointer).Elem())
	c.Name = gl.String()
	globals[gl] = c
	if !own && !initAllowed[pkg.Pkg.Path()] && g.inInit == 0 && gl.Name() != "init$guard" {
		// the initialiser of this package is not interpreted: the variable reads as its zero value (listed in the evidence)
		m.res.Intrinsics["zero-valued global of a package whose initialiser is not interpreted: "+gl.String()] = true
	}
	return c
}

func (m *Machine) runInit(g *G, pkg *ssa.Package) {
	initFn := pkg.Func("init")
	if initFn == nil || initFn.Blocks == nil {
		return
	}
	path := pkg.Pkg.Path()
	own := strings.HasPrefix(path, m.ld.ModulePath())
	if os.Getenv("SYMGO_INITLOG") != "" {
		fmt.Fprintf(os.Stderr, "runInit %s allowed=%v\n", path, own || initAllowed[path])
	}
	if !own && !initAllowed[path] {
		return
	}
	// run in a sandbox: failures inside foreign initialisers are tolerated (remaining globals stay zero)
	savedTop, savedDepth := g.top, g.depth
	func() {
		defer func() {
			if r := recover(); r != nil {
				g.top, g.depth = savedTop, savedDepth
				if own {
					panic(r)
				}
				if pe, ok := r.(pathEnd); ok && pe.kind == "killed" {
					panic(r)
				}
				// foreign initialiser: whatever could not be interpreted leaves its globals zero
				if os.Getenv("SYMGO_INITLOG") != "" {
					fmt.Fprintf(os.Stderr, "init of %s abandoned: %v\n", path, r)
				}
				return
			}
		}()
		g.inInit++
		savedDirect := g.initDirect
		g.initDirect = initFn
		defer func() { g.inInit--; g.initDirect = savedDirect }()
		g.call(initFn, nil, nil)
	}()
	if os.Getenv("SYMGO_INITLOG") != "" {
		for gl, c := range m.foreignGlobals {
			if gl.Pkg == pkg && len(c.Kids) > 200 {
				fmt.Fprintf(os.Stderr, "  global %s kid[0x80]=%v kid[0x41]=%v\n", gl.Name(), c.Kids[0x80].V, c.Kids[0x41].V)
			}
		}
	}
}

// packages (outside the module under test) whose initialisers are interpreted on first use of one of their globals
var initAllowed = map[string]bool{
	"io": true, "errors": true, "strconv": true, "unicode/utf8": true, "bytes": true, "strings": true,
	"github.com/cybergarage/go-tracing/tracer": true, "crypto/tls": false, "net": false, "time": false,
	"io/fs": true, "os": false, "syscall": false, "sort": true, "math": true, "bufio": true, "context": true,
}

func (g *G) exec(fr *Frame) Value {
	m := g.m
	for {
		b := fr.block
		fr.visits[b.Index]++
		if fr.visits[b.Index] > m.unwind {
			panic(pathEnd{"unwind", fmt.Sprintf("%s block %d", fr.fn.String(), b.Index)})
		}
		// phis first (parallel assignment)
		nphi := 0
		var phiVals []Value
		for _, ins := range b.Instrs {
			phi, ok := ins.(*ssa.Phi)
			if !ok {
				break
			}
			nphi++
			var val Value
			for i, p := range b.Preds {
				if p == fr.prev {
					val = g.get(fr, phi.Edges[i])
					break
				}
			}
			phiVals = append(phiVals, val)
		}
		for i := 0; i < nphi; i++ {
			fr.set(b.Instrs[i].(*ssa.Phi), phiVals[i])
		}
		var next *ssa.BasicBlock
		for _, ins := range b.Instrs[nphi:] {
			m.steps++
			if stepProfile != nil {
				stepProfile[fr.fn.String()]++
			}
			if m.cfg.MaxSteps > 0 && m.steps > m.cfg.MaxSteps {
				panic(pathEnd{"budget", "max steps in " + fr.fn.String()})
			}
			switch x := ins.(type) {
			case *ssa.If:
				c := g.get(fr, x.Cond).(*Term)
				if m.cond2("if@"+fr.fn.Name(), c) {
					next = b.Succs[0]
				} else {
					next = b.Succs[1]
				}
			case *ssa.Jump:
				next = b.Succs[0]
			case *ssa.Return:
				var ret Value
				switch len(x.Results) {
				case 0:
				case 1:
					ret = g.get(fr, x.Results[0])
				default:
					tu := make(Tuple, len(x.Results))
					for i, r := range x.Results {
						tu[i] = g.get(fr, r)
					}
					ret = tu
				}
				return ret
			case *ssa.Panic:
				v := g.get(fr, x.X)
				panic(&goPanic{val: v, kind: "explicit", site: g.siteOfModule(), stack: g.stackTrace()})
			case *ssa.RunDefers:
				g.runDefers(fr)
			default:
				g.step(fr, ins)
			}
		}
		if next == nil {
			panic(fmt.Sprintf("block %d of %s has no terminator", b.Index, fr.fn))
		}
		fr.prev = b
		fr.block = next
	}
}

func (g *G) step(fr *Frame, ins ssa.Instruction) {
	m := g.m
	switch x := ins.(type) {
	case *ssa.DebugRef:
	case *ssa.Alloc:
		c := m.newCell(x.Type().(*types.Pointer).Elem())
		fr.set(x, c)
	case *ssa.BinOp:
		fr.set(x, g.binop(x.Op, x.X.Type(), g.get(fr, x.X), g.get(fr, x.Y), x.Y.Type()))
	case *ssa.UnOp:
		fr.set(x, g.unop(fr, x))
	case *ssa.Call:
		fr.set(x, g.doCall(fr, &x.Call))
	case *ssa.ChangeInterface:
		fr.set(x, g.get(fr, x.X))
	case *ssa.ChangeType:
		fr.set(x, g.get(fr, x.X))
	case *ssa.Convert:
		fr.set(x, g.convert(x.X.Type(), x.Type(), g.get(fr, x.X)))
	case *ssa.Extract:
		fr.set(x, g.get(fr, x.Tuple).(Tuple)[x.Index])
	case *ssa.Field:
		fr.set(x, g.get(fr, x.X).(*StructV).F[x.Field])
	case *ssa.FieldAddr:
		p, _ := g.get(fr, x.X).(*Cell)
		if p == nil {
			g.throw("nil-deref", "invalid memory address or nil pointer dereference")
		}
		if p.Kids == nil {
			m.unsupported("FieldAddr on opaque object of type %v", p.T)
		}
		fr.set(x, p.Kids[x.Field])
	case *ssa.Index:
		fr.set(x, g.indexValue(fr, x))
	case *ssa.IndexAddr:
		fr.set(x, g.indexAddr(fr, x))
	case *ssa.Lookup:
		fr.set(x, g.lookup(fr, x))
	case *ssa.MakeClosure:
		bs := make([]Value, len(x.Bindings))
		for i, b := range x.Bindings {
			bs[i] = g.get(fr, b)
		}
		fr.set(x, &FuncV{Fn: x.Fn.(*ssa.Function), Bindings: bs})
	case *ssa.MakeInterface:
		fr.set(x, &IfaceV{T: x.X.Type(), V: g.get(fr, x.X)})
	case *ssa.MakeMap:
		mt := under(x.Type()).(*types.Map)
		fr.set(x, &MapObj{KeyT: mt.Key(), ValT: mt.Elem()})
	case *ssa.MakeSlice:
		fr.set(x, g.makeSlice(fr, x))
	case *ssa.MapUpdate:
		mo, _ := g.get(fr, x.Map).(*MapObj)
		if mo == nil {
			g.throw("nil-map", "assignment to entry in nil map")
		}
		g.mapStore(mo, g.get(fr, x.Key), g.get(fr, x.Value))
	case *ssa.Range:
		fr.set(x, g.rangeIter(g.get(fr, x.X)))
	case *ssa.Next:
		fr.set(x, g.next(x, g.get(fr, x.Iter).(*IterV)))
	case *ssa.Slice:
		fr.set(x, g.sliceOp(fr, x))
	case *ssa.Store:
		p, _ := g.get(fr, x.Addr).(*Cell)
		if p == nil {
			g.throw("nil-deref", "invalid memory address or nil pointer dereference")
		}
		g.yieldBeforeSharedWrite(p)
		g.onWrite(p)
		m.store(p, g.get(fr, x.Val))
	case *ssa.TypeAssert:
		fr.set(x, g.typeAssert(x, g.get(fr, x.X)))
	case *ssa.Defer:
		fv, args := g.prepareCall(fr, &x.Call)
		fr.defers = append(fr.defers, deferred{fn: fv, args: args})
	case *ssa.Go:
		fv, args := g.prepareCall(fr, &x.Call)
		g.spawn(fv, args)
	case *ssa.SliceToArrayPointer:
		s, _ := g.get(fr, x.X).(*SliceV)
		at := under(x.Type().(*types.Pointer).Elem()).(*types.Array)
		n := int(at.Len())
		if s.IsNil() {
			if n == 0 {
				fr.set(x, (*Cell)(nil))
				return
			}
			g.throw("slice", "cannot convert slice with length 0 to array or pointer to array")
		}
		if s.Len < n {
			g.throw("slice", "cannot convert slice to array pointer: length too short")
		}
		c := &Cell{T: at, Kids: s.Arr.Cells[s.Off : s.Off+n]}
		fr.set(x, c)
	default:
		m.unsupported("instruction %T in %s", ins, fr.fn)
	}
}

// prepareCall evaluates callee and arguments of a call site into a callable value + args.
func (g *G) prepareCall(fr *Frame, cc *ssa.CallCommon) (Value, []Value) {
	m := g.m
	args := make([]Value, 0, len(cc.Args)+1)
	if cc.IsInvoke() {
		recv, _ := g.get(fr, cc.Value).(*IfaceV)
		if recv == nil {
			g.throw("nil-deref", "invalid memory address or nil pointer dereference (method call on nil interface)")
		}
		fn := m.lookupMethod(recv.T, cc.Method)
		if fn == nil {
			m.unsupported("no method %s on %v", cc.Method.Name(), recv.T)
		}
		args = append(args, recv.V)
		for _, a := range cc.Args {
			args = append(args, g.get(fr, a))
		}
		return &FuncV{Fn: fn}, args
	}
	for _, a := range cc.Args {
		args = append(args, g.get(fr, a))
	}
	switch v := cc.Value.(type) {
	case *ssa.Function:
		return &FuncV{Fn: v}, args
	case *ssa.Builtin:
		return &FuncV{Builtin: v}, args
	}
	return g.get(fr, cc.Value), args
}

func (m *Machine) lookupMethod(t types.Type, meth *types.Func) *ssa.Function {
	ms := m.prog.MethodSets.MethodSet(t)
	sel := ms.Lookup(meth.Pkg(), meth.Name())
	if sel == nil {
		return nil
	}
	return m.prog.MethodValue(sel)
}

func (g *G) doCall(fr *Frame, cc *ssa.CallCommon) Value {
	if b, ok := cc.Value.(*ssa.Builtin); ok && !cc.IsInvoke() {
		args := make([]Value, len(cc.Args))
		for i, a := range cc.Args {
			args[i] = g.get(fr, a)
		}
		return g.builtin(b, args, cc)
	}
	fv, args := g.prepareCall(fr, cc)
	return g.callValue(fv, args)
}

// ---- operators ----

func (g *G) unop(fr *Frame, x *ssa.UnOp) Value {
	m := g.m
	v := g.get(fr, x.X)
	switch x.Op {
	case token.MUL:
		p, _ := v.(*Cell)
		if p == nil {
			g.throw("nil-deref", "invalid memory address or nil pointer dereference")
		}
		g.onRead(p)
		return m.load(p)
	case token.NOT:
		return m.ctx.Not(v.(*Term))
	case token.SUB:
		t := v.(*Term)
		if t.Sort == SFP {
			return m.ctx.FNeg(t)
		}
		return m.ctx.Neg(t)
	case token.XOR:
		return m.ctx.BNot(v.(*Term))
	}
	m.unsupported("unary operator %v", x.Op)
	return nil
}

func isSigned(t types.Type) bool {
	if b, ok := under(t).(*types.Basic); ok {
		_, s, _ := intWidth(b)
		return s
	}
	return false
}

func isString(t types.Type) bool {
	b, ok := under(t).(*types.Basic)
	return ok && b.Info()&types.IsString != 0
}

func isFloat(t types.Type) bool {
	b, ok := under(t).(*types.Basic)
	return ok && b.Info()&types.IsFloat != 0
}

func (g *G) binop(op token.Token, xt types.Type, a, b Value, yt types.Type) Value {
	m := g.m
	c := m.ctx
	switch op {
	case token.EQL:
		return g.equal(xt, a, b)
	case token.NEQ:
		return c.Not(g.equal(xt, a, b))
	}
	if isString(xt) {
		sa, sb := a.(*StrV), b.(*StrV)
		switch op {
		case token.ADD:
			x, y := sa.Bytes(), sb.Bytes()
			if len(x) == 0 {
				return sb
			}
			if len(y) == 0 {
				return sa
			}
			nb := make([]*Term, 0, len(x)+len(y))
			nb = append(nb, x...)
			nb = append(nb, y...)
			return &StrV{b: nb}
		case token.LSS:
			return g.strLess(sa, sb, false)
		case token.LEQ:
			return g.strLess(sa, sb, true)
		case token.GTR:
			return g.strLess(sb, sa, false)
		case token.GEQ:
			return g.strLess(sb, sa, true)
		}
		m.unsupported("string operator %v", op)
	}
	x, y := a.(*Term), b.(*Term)
	if x.Sort == SBool {
		switch op {
		case token.AND, token.LAND:
			return c.And(x, y)
		case token.OR, token.LOR:
			return c.Or(x, y)
		case token.XOR:
			return c.Not(c.Eq(x, y))
		}
		m.unsupported("bool operator %v", op)
	}
	if x.Sort == SFP {
		switch op {
		case token.ADD:
			return c.FAdd(x, y)
		case token.SUB:
			return c.FSub(x, y)
		case token.MUL:
			return c.FMul(x, y)
		case token.QUO:
			return c.FDiv(x, y)
		case token.LSS:
			return c.FLt(x, y)
		case token.LEQ:
			return c.FLe(x, y)
		case token.GTR:
			return c.FLt(y, x)
		case token.GEQ:
			return c.FLe(y, x)
		}
		m.unsupported("float operator %v", op)
	}
	signed := isSigned(xt)
	switch op {
	case token.ADD:
		return c.Add(x, y)
	case token.SUB:
		return c.Sub(x, y)
	case token.MUL:
		return c.Mul(x, y)
	case token.QUO, token.REM:
		zero := c.Eq(y, c.BV(y.W, 0))
		if m.cond2("divzero", zero) {
			g.throw("divide", "integer divide by zero")
		}
		if op == token.QUO {
			if signed {
				return c.SDiv(x, y)
			}
			return c.UDiv(x, y)
		}
		if signed {
			return c.SRem(x, y)
		}
		return c.URem(x, y)
	case token.AND:
		return c.BAnd(x, y)
	case token.OR:
		return c.BOr(x, y)
	case token.XOR:
		return c.BXor(x, y)
	case token.AND_NOT:
		return c.BAnd(x, c.BNot(y))
	case token.SHL, token.SHR:
		// shift count: unsigned semantic; negative signed count panics
		if isSigned(yt) {
			neg := c.Slt(y, c.BV(y.W, 0))
			if m.cond2("negshift", neg) {
				g.throw("shift", "negative shift amount")
			}
		}
		var yy *Term
		big := c.False
		if y.W > x.W {
			big = c.Not(c.Ult(y, c.BV(y.W, uint64(x.W))))
			yy = c.Extract(y, x.W-1, 0)
		} else {
			yy = c.Zext(y, x.W)
			big = c.Not(c.Ult(yy, c.BV(x.W, uint64(x.W))))
		}
		var r, ov *Term
		if op == token.SHL {
			r, ov = c.Shl(x, yy), c.BV(x.W, 0)
		} else if signed {
			r, ov = c.Ashr(x, yy), c.Ashr(x, c.BV(x.W, uint64(x.W-1)))
		} else {
			r, ov = c.Lshr(x, yy), c.BV(x.W, 0)
		}
		return c.Ite(big, ov, r)
	case token.LSS:
		if signed {
			return c.Slt(x, y)
		}
		return c.Ult(x, y)
	case token.LEQ:
		if signed {
			return c.Sle(x, y)
		}
		return c.Ule(x, y)
	case token.GTR:
		if signed {
			return c.Slt(y, x)
		}
		return c.Ult(y, x)
	case token.GEQ:
		if signed {
			return c.Sle(y, x)
		}
		return c.Ule(y, x)
	}
	m.unsupported("binary operator %v", op)
	return nil
}

func (g *G) strLess(a, b *StrV, orEq bool) *Term {
	c := g.m.ctx
	x, y := a.Bytes(), b.Bytes()
	// lexicographic from the end
	n := len(x)
	if len(y) < n {
		n = len(y)
	}
	var res *Term
	if len(x) < len(y) {
		res = c.True
	} else if len(x) > len(y) {
		res = c.False
	} else {
		res = c.Bool(orEq)
	}
	for i := n - 1; i >= 0; i-- {
		res = c.Ite(c.Ult(x[i], y[i]), c.True, c.Ite(c.Ult(y[i], x[i]), c.False, res))
	}
	return res
}

// equal builds the equality condition of two values of static type t.
func (g *G) equal(t types.Type, a, b Value) *Term {
	m := g.m
	c := m.ctx
	switch x := a.(type) {
	case nil:
		// untyped nil
		return c.Bool(isNilValue(b))
	case *Term:
		y, ok := b.(*Term)
		if !ok {
			return c.False
		}
		if x.Sort == SFP {
			return c.FEq(x, y)
		}
		return c.Eq(x, y)
	case *StrV:
		y := b.(*StrV)
		xb, yb := x.Bytes(), y.Bytes()
		if len(xb) != len(yb) {
			return c.False
		}
		r := c.True
		for i := range xb {
			r = c.And(r, c.Eq(xb[i], yb[i]))
			if r.IsFalse() {
				break
			}
		}
		return r
	case *Cell:
		y, _ := b.(*Cell)
		return c.Bool(x == y)
	case *SliceV:
		y, _ := b.(*SliceV)
		return c.Bool(x.IsNil() && y.IsNil())
	case *MapObj:
		y, _ := b.(*MapObj)
		return c.Bool(x == y)
	case *FuncV:
		y, _ := b.(*FuncV)
		return c.Bool(x == nil && y == nil)
	case *IfaceV:
		y, _ := b.(*IfaceV)
		if x == nil || y == nil {
			return c.Bool(x == nil && y == nil)
		}
		if !types.Identical(x.T, y.T) {
			return c.False
		}
		return g.equal(x.T, x.V, y.V)
	case *StructV:
		y := b.(*StructV)
		r := c.True
		st := under(t).(*types.Struct)
		for i := range x.F {
			r = c.And(r, g.equal(st.Field(i).Type(), x.F[i], y.F[i]))
		}
		return r
	case *ArrayV:
		y := b.(*ArrayV)
		r := c.True
		at := under(t).(*types.Array)
		for i := range x.E {
			r = c.And(r, g.equal(at.Elem(), x.E[i], y.E[i]))
		}
		return r
	}
	m.unsupported("equality on %T", a)
	return nil
}

func isNilValue(v Value) bool {
	switch x := v.(type) {
	case nil:
		return true
	case *Cell:
		return x == nil
	case *SliceV:
		return x.IsNil()
	case *MapObj:
		return x == nil
	case *FuncV:
		return x == nil
	case *IfaceV:
		return x == nil
	}
	return false
}

func (g *G) convert(from, to types.Type, v Value) Value {
	m := g.m
	c := m.ctx
	fu, tu := under(from), under(to)
	switch tt := tu.(type) {
	case *types.Basic:
		switch {
		case tt.Info()&types.IsInteger != 0:
			tw, _, _ := intWidth(tt)
			if fb, ok := fu.(*types.Basic); ok {
				if fb.Info()&types.IsInteger != 0 {
					_, fs, _ := intWidth(fb)
					t := v.(*Term)
					if tw <= t.W {
						return c.Extract(t, tw-1, 0)
					}
					if fs {
						return c.Sext(t, tw)
					}
					return c.Zext(t, tw)
				}
				if fb.Info()&types.IsFloat != 0 {
					f := v.(*Term)
					// amd64: out-of-range / NaN converts to MinInt64
					r := c.FToSBV(f, 64)
					lo := c.FPConst(-9223372036854775808.0)
					hi := c.FPConst(9223372036854775808.0)
					inRange := c.And(c.FLe(lo, f), c.FLt(f, hi))
					r = c.Ite(inRange, r, c.BV(64, 1<<63))
					if tw < 64 {
						return c.Extract(r, tw-1, 0)
					}
					return r
				}
			}
			if _, ok := fu.(*types.Pointer); ok {
				m.unsupported("pointer to integer conversion")
			}
		case tt.Info()&types.IsFloat != 0:
			if fb, ok := fu.(*types.Basic); ok {
				if fb.Info()&types.IsFloat != 0 {
					if tt.Kind() == types.Float32 && fb.Kind() != types.Float32 {
						t := v.(*Term)
						if t.IsConst() {
							return c.FPConst(float64(float32(math.Float64frombits(t.Val))))
						}
						m.unsupported("float64 to float32 conversion of symbolic value")
					}
					return v
				}
				if fb.Info()&types.IsInteger != 0 {
					_, fs, _ := intWidth(fb)
					t := v.(*Term)
					if t.W < 64 {
						if fs {
							t = c.Sext(t, 64)
						} else {
							t = c.Zext(t, 64)
						}
					} else if !fs {
						if t.UHi >= 1<<63 {
							m.unsupported("uint64 to float conversion of large symbolic value")
						}
					}
					return c.FFromSBV(t)
				}
			}
		case tt.Info()&types.IsString != 0:
			switch ft := fu.(type) {
			case *types.Basic:
				if ft.Info()&types.IsString != 0 {
					return v
				}
				if ft.Info()&types.IsInteger != 0 {
					t := v.(*Term)
					if t.IsConst() {
						return m.strConst(string(rune(t.SVal())))
					}
					// symbolic rune to string: ASCII only
					if t.UHi < 0x80 {
						return &StrV{b: []*Term{c.Extract(t, 7, 0)}}
					}
					if m.cond2("rune<0x80", c.Ult(t, c.BV(t.W, 0x80))) {
						return &StrV{b: []*Term{c.Extract(t, 7, 0)}}
					}
					m.cut("non-ASCII rune to string conversion")
				}
			case *types.Slice:
				s, _ := v.(*SliceV)
				if eb, ok := under(ft.Elem()).(*types.Basic); ok && eb.Kind() == types.Uint8 {
					if s.IsNil() {
						return &StrV{}
					}
					g.onReadSlice(s)
					return &StrV{b: m.sliceBytes(s)}
				}
				if eb, ok := under(ft.Elem()).(*types.Basic); ok && eb.Kind() == types.Int32 {
					// []rune -> string (concrete ASCII only)
					var out []*Term
					for i := 0; s != nil && i < s.Len; i++ {
						r := s.Arr.Cells[s.Off+i].V.(*Term)
						if r.UHi >= 0x80 {
							m.unsupported("[]rune to string with non-ASCII rune")
						}
						out = append(out, c.Extract(r, 7, 0))
					}
					return &StrV{b: out}
				}
			}
		case tt.Kind() == types.UnsafePointer:
			return v
		}
	case *types.Slice:
		if isString(from) {
			s := v.(*StrV)
			eb, _ := under(tt.Elem()).(*types.Basic)
			if eb != nil && eb.Kind() == types.Uint8 {
				bs := s.Bytes()
				nb := make([]*Term, len(bs))
				copy(nb, bs)
				return m.bytesToSlice(nb)
			}
			if eb != nil && eb.Kind() == types.Int32 {
				bs := s.Bytes()
				a := m.newArr(tt.Elem(), 0)
				for _, b := range bs {
					if b.UHi >= 0x80 {
						if !m.cond2("byte<0x80", c.Ult(b, c.BV(8, 0x80))) {
							m.cut("non-ASCII string to []rune conversion")
						}
					}
					a.Cells = append(a.Cells, &Cell{T: tt.Elem(), V: c.Zext(b, 32)})
				}
				return &SliceV{Arr: a, Len: len(a.Cells), Cap: len(a.Cells)}
			}
		}
		if _, ok := fu.(*types.Slice); ok {
			return v
		}
	case *types.Pointer:
		return v
	case *types.Array, *types.Struct, *types.Map, *types.Signature, *types.Interface:
		return v
	}
	m.unsupported("conversion %v -> %v", from, to)
	return nil
}

// ---- memory access helpers ----

func (g *G) boundsCheck(label string, idx *Term, n int, kind, msg string) {
	c := g.m.ctx
	ok := c.Ult(idx, c.BV(idx.W, uint64(n)))
	if !g.m.cond2(label, ok) {
		g.throw(kind, msg)
	}
}

// idxTerm widens an index/length operand to 64 bits according to the signedness of its Go type.
func (g *G) idxTerm(v Value, typ types.Type) *Term {
	t := v.(*Term)
	if t.W < 64 {
		if b, ok := under(typ).(*types.Basic); ok && b.Info()&types.IsUnsigned != 0 {
			return g.m.ctx.Zext(t, 64)
		}
		t = g.m.ctx.Sext(t, 64)
	}
	return t
}

func (g *G) indexAddr(fr *Frame, x *ssa.IndexAddr) Value {
	m := g.m
	base := g.get(fr, x.X)
	idx := g.idxTerm(g.get(fr, x.Index), x.Index.Type())
	switch b := base.(type) {
	case *SliceV:
		if b.IsNil() {
			g.throw("index", "index out of range [..] with length 0")
		}
		if b.SymLen != nil {
			return g.lazyIndex(b, idx)
		}
		g.boundsCheck("idx", idx, b.Len, "index", fmt.Sprintf("index out of range with length %d", b.Len))
		i := int(m.concretizeInt("idxval", idx, 0, int64(b.Len-1)))
		return b.Arr.Cells[b.Off+i]
	case *Cell:
		if b == nil {
			g.throw("nil-deref", "invalid memory address or nil pointer dereference")
		}
		n := len(b.Kids)
		g.boundsCheck("idx", idx, n, "index", fmt.Sprintf("index out of range with length %d", n))
		i := int(m.concretizeInt("idxval", idx, 0, int64(n-1)))
		return b.Kids[i]
	}
	m.unsupported("IndexAddr on %T", base)
	return nil
}

func (g *G) indexValue(fr *Frame, x *ssa.Index) Value {
	m := g.m
	base := g.get(fr, x.X)
	idx := g.idxTerm(g.get(fr, x.Index), x.Index.Type())
	switch b := base.(type) {
	case *ArrayV:
		g.boundsCheck("idx", idx, len(b.E), "index", "index out of range")
		i := int(m.concretizeInt("idxval", idx, 0, int64(len(b.E)-1)))
		return b.E[i]
	case *StrV:
		return g.strIndex(b, idx)
	}
	m.unsupported("Index on %T", base)
	return nil
}

func (g *G) strIndex(s *StrV, idx *Term) Value {
	m := g.m
	bs := s.Bytes()
	g.boundsCheck("idx", idx, len(bs), "index", fmt.Sprintf("index out of range with length %d", len(bs)))
	i := int(m.concretizeInt("idxval", idx, 0, int64(len(bs)-1)))
	return bs[i]
}

func (g *G) lookup(fr *Frame, x *ssa.Lookup) Value {
	m := g.m
	base := g.get(fr, x.X)
	key := g.get(fr, x.Index)
	if s, ok := base.(*StrV); ok {
		return g.strIndex(s, g.idxTerm(key, x.Index.Type()))
	}
	mo, _ := base.(*MapObj)
	var val Value
	found := false
	if mo != nil {
		g.onReadMap(mo)
		if e := g.mapFind(mo, key); e != nil {
			val = m.load(e.V)
			found = true
		}
	}
	if !found {
		mt := under(x.X.Type()).(*types.Map)
		val = m.zero(mt.Elem())
	}
	if x.CommaOk {
		return Tuple{val, m.ctx.Bool(found)}
	}
	return val
}

// mapFind locates the entry whose key equals key on this path (forking on symbolic equality).
func (g *G) mapFind(mo *MapObj, key Value) *MapEntry {
	m := g.m
	for _, e := range mo.Entries {
		eq := m.simp(g.equal(mo.KeyT, e.K, key))
		if eq.IsTrue() {
			return e
		}
		if eq.IsFalse() {
			continue
		}
		if m.cond2("mapkey", eq) {
			return e
		}
	}
	return nil
}

func (g *G) mapStore(mo *MapObj, key, val Value) {
	m := g.m
	g.onWriteMap(mo)
	if e := g.mapFind(mo, key); e != nil {
		m.store(e.V, val)
		return
	}
	cell := m.newCell(mo.ValT)
	m.store(cell, val)
	mo.Entries = append(mo.Entries, &MapEntry{K: key, V: cell})
}

func (g *G) mapDelete(mo *MapObj, key Value) {
	if mo == nil {
		return
	}
	g.onWriteMap(mo)
	if e := g.mapFind(mo, key); e != nil {
		for i, x := range mo.Entries {
			if x == e {
				mo.Entries = append(append([]*MapEntry{}, mo.Entries[:i]...), mo.Entries[i+1:]...)
				break
			}
		}
	}
}

func (g *G) rangeIter(v Value) Value {
	switch x := v.(type) {
	case *MapObj:
		if x == nil {
			return &IterV{}
		}
		g.onReadMap(x)
		return &IterV{M: x, Remain: append([]*MapEntry{}, x.Entries...)}
	case *StrV:
		return &IterV{Str: x}
	}
	g.m.unsupported("range over %T", v)
	return nil
}

func (g *G) next(x *ssa.Next, it *IterV) Value {
	m := g.m
	c := m.ctx
	if x.IsString {
		bs := it.Str.Bytes()
		if it.Pos >= len(bs) {
			return Tuple{c.False, c.BV(64, 0), c.BV(32, 0)}
		}
		b := bs[it.Pos]
		if b.UHi >= 0x80 {
			if !m.cond2("byte<0x80", c.Ult(b, c.BV(8, 0x80))) {
				r, size := g.decodeRuneSym(bs[it.Pos:])
				pos := it.Pos
				it.Pos += size
				return Tuple{c.True, c.BV(64, uint64(pos)), r}
			}
		}
		pos := it.Pos
		it.Pos++
		return Tuple{c.True, c.BV(64, uint64(pos)), c.Zext(b, 32)}
	}
	// map
	for len(it.Remain) > 0 {
		n := len(it.Remain)
		pick := 0
		maxN := m.cfg.MapOrderMax
		if maxN == 0 {
			maxN = 3
		}
		if n > 1 && len(it.M.Entries) <= maxN {
			pick = m.choose("maporder", n)
		}
		e := it.Remain[pick]
		it.Remain = append(append([]*MapEntry{}, it.Remain[:pick]...), it.Remain[pick+1:]...)
		// skip entries deleted meanwhile
		alive := false
		for _, cur := range it.M.Entries {
			if cur == e {
				alive = true
				break
			}
		}
		if !alive {
			continue
		}
		mt := x.Iter.(*ssa.Range).X.Type()
		_ = mt
		return Tuple{c.True, e.K, m.load(e.V)}
	}
	var kz, vz Value
	if it.M != nil {
		kz, vz = m.zero(it.M.KeyT), m.zero(it.M.ValT)
	} else {
		tt := x.Type().(*types.Tuple)
		kz, vz = m.zeroOrNil(tt.At(1).Type()), m.zeroOrNil(tt.At(2).Type())
	}
	return Tuple{c.False, kz, vz}
}

func (m *Machine) zeroOrNil(t types.Type) Value {
	if b, ok := t.(*types.Basic); ok && b.Kind() == types.Invalid {
		return nil
	}
	return m.zero(t)
}

// decodeRuneSym decodes one UTF-8 sequence starting at a byte known to be >= 0x80 (symbolic bytes
// allowed): it forks on the lead-byte class and on the validity of the continuation bytes, exactly
// like utf8.DecodeRune / the range-over-string loop (invalid input yields U+FFFD of width 1).
func (g *G) decodeRuneSym(bs []*Term) (*Term, int) {
	m := g.m
	c := m.ctx
	bad := func() (*Term, int) { return c.BV(32, 0xFFFD), 1 }
	in := func(b *Term, lo, hi uint64) *Term { return c.And(c.Ule(c.BV(8, lo), b), c.Ule(b, c.BV(8, hi))) }
	b0 := bs[0]
	z := func(b *Term) *Term { return c.Zext(b, 32) }
	// class: 0 invalid, 2/3/4 sequence length
	cls := m.branch("utf8-lead", c.Or(in(b0, 0x80, 0xC1), in(b0, 0xF5, 0xFF)), in(b0, 0xC2, 0xDF), in(b0, 0xE0, 0xEF), in(b0, 0xF0, 0xF4))
	switch cls {
	case 0:
		return bad()
	case 1:
		if len(bs) < 2 || !m.cond2("utf8-cont", in(bs[1], 0x80, 0xBF)) {
			return bad()
		}
		r := c.BOr(c.Shl(c.BAnd(z(b0), c.BV(32, 0x1F)), c.BV(32, 6)), c.BAnd(z(bs[1]), c.BV(32, 0x3F)))
		return r, 2
	case 2:
		if len(bs) < 3 {
			return bad()
		}
		// second byte range depends on the lead byte (E0: A0..BF, ED: 80..9F, otherwise 80..BF)
		ok1 := c.Ite(c.Eq(b0, c.BV(8, 0xE0)), in(bs[1], 0xA0, 0xBF), c.Ite(c.Eq(b0, c.BV(8, 0xED)), in(bs[1], 0x80, 0x9F), in(bs[1], 0x80, 0xBF)))
		if !m.cond2("utf8-cont", c.And(ok1, in(bs[2], 0x80, 0xBF))) {
			return bad()
		}
		r := c.BOr(c.BOr(c.Shl(c.BAnd(z(b0), c.BV(32, 0x0F)), c.BV(32, 12)), c.Shl(c.BAnd(z(bs[1]), c.BV(32, 0x3F)), c.BV(32, 6))), c.BAnd(z(bs[2]), c.BV(32, 0x3F)))
		return r, 3
	default:
		if len(bs) < 4 {
			return bad()
		}
		ok1 := c.Ite(c.Eq(b0, c.BV(8, 0xF0)), in(bs[1], 0x90, 0xBF), c.Ite(c.Eq(b0, c.BV(8, 0xF4)), in(bs[1], 0x80, 0x8F), in(bs[1], 0x80, 0xBF)))
		if !m.cond2("utf8-cont", c.And(ok1, c.And(in(bs[2], 0x80, 0xBF), in(bs[3], 0x80, 0xBF)))) {
			return bad()
		}
		r := c.BOr(c.BOr(c.Shl(c.BAnd(z(b0), c.BV(32, 0x07)), c.BV(32, 18)), c.Shl(c.BAnd(z(bs[1]), c.BV(32, 0x3F)), c.BV(32, 12))),
			c.BOr(c.Shl(c.BAnd(z(bs[2]), c.BV(32, 0x3F)), c.BV(32, 6)), c.BAnd(z(bs[3]), c.BV(32, 0x3F))))
		return r, 4
	}
}

func decodeRune(p []byte) (rune, int) {
	s := string(p)
	for _, r := range s {
		n := len(string(r))
		if r == 0xFFFD {
			return r, 1
		}
		return r, n
	}
	return 0xFFFD, 1
}

func (g *G) typeAssert(x *ssa.TypeAssert, v Value) Value {
	m := g.m
	iv, _ := v.(*IfaceV)
	ok := false
	var res Value
	if iv != nil && iv.T != nil {
		if types.IsInterface(x.AssertedType) {
			it := under(x.AssertedType).(*types.Interface)
			if types.Implements(iv.T, it) || implementsViaPtr(iv.T, it) {
				ok = true
				res = iv
			}
		} else if types.Identical(iv.T, x.AssertedType) {
			ok = true
			res = iv.V
		}
	}
	if x.CommaOk {
		if !ok {
			res = m.zero(x.AssertedType)
		}
		return Tuple{res, m.ctx.Bool(ok)}
	}
	if !ok {
		g.throw("typeassert", fmt.Sprintf("interface conversion: interface is not %v", x.AssertedType))
	}
	return res
}

func implementsViaPtr(t types.Type, it *types.Interface) bool {
	return false
}

func (g *G) makeSlice(fr *Frame, x *ssa.MakeSlice) Value {
	m := g.m
	c := m.ctx
	st := under(x.Type()).(*types.Slice)
	lenT := g.idxTerm(g.get(fr, x.Len), x.Len.Type())
	capT := g.idxTerm(g.get(fr, x.Cap), x.Cap.Type())
	esz := m.sizeof(st.Elem())
	if esz == 0 {
		esz = 1
	}
	lenT, capT = m.simp(lenT), m.simp(capT)
	if lenT.IsConst() && capT.IsConst() {
		n, cp := lenT.SVal(), capT.SVal()
		if n < 0 || n > (1<<47)/esz {
			g.throw("makeslice", "makeslice: len out of range")
		}
		if cp < n || cp > (1<<47)/esz {
			g.throw("makeslice", "makeslice: cap out of range")
		}
		if cp*esz > m.allocCap {
			m.report(&Finding{Kind: "alloc", ID: "alloc-cap", Site: g.siteOfModule(), Msg: fmt.Sprintf("allocation of %d bytes exceeds cap %d", cp*esz, m.allocCap), Stack: g.stackTrace()})
			panic(pathEnd{"alloc", "allocation cap"})
		}
		if cp > 1<<22 {
			m.unsupported("concrete allocation of %d elements", cp)
		}
		a := m.newArr(st.Elem(), int(cp))
		return &SliceV{Arr: a, Len: int(n), Cap: int(cp)}
	}
	if lenT != capT {
		m.unsupported("make with symbolic len != cap")
	}
	// symbolic length
	maxElems := uint64((1 << 47) / esz)
	bad := c.Not(c.Ule(lenT, c.BV(64, maxElems))) // negative or too large (unsigned compare)
	if m.cond2("makeslice-range", bad) {
		g.throw("makeslice", "makeslice: len out of range")
	}
	capElems := uint64(m.allocCap / esz)
	tooBig := c.Not(c.Ule(lenT, c.BV(64, capElems)))
	if m.cond2("makeslice-alloc", tooBig) {
		m.report(&Finding{Kind: "alloc", ID: "alloc-cap", Site: g.siteOfModule(), Msg: fmt.Sprintf("attacker-sized allocation can exceed %d bytes", m.allocCap), Stack: g.stackTrace()})
		panic(pathEnd{"alloc", "allocation cap"})
	}
	// small concrete sizes are enumerated, the rest is one lazy array
	small := int64(m.cfgSmallAlloc())
	alts := make([]*Term, 0, small+2)
	for v := int64(0); v <= small; v++ {
		alts = append(alts, c.Eq(lenT, c.BV(64, uint64(v))))
	}
	alts = append(alts, c.Not(c.Ule(lenT, c.BV(64, uint64(small)))))
	k := m.branch("makeslice-len", alts...)
	if int64(k) <= small {
		a := m.newArr(st.Elem(), k)
		return &SliceV{Arr: a, Len: k, Cap: k}
	}
	a := &ArrObj{ElemT: st.Elem(), Lazy: true, Sparse: map[int]*Cell{}, SymLen: lenT}
	return &SliceV{Arr: a, Off: 0, Len: int(small) + 1, Cap: int(small) + 1, SymLen: lenT}
}

func (m *Machine) cfgSmallAlloc() int {
	if v, ok := m.cfg.Params["smallalloc"]; ok {
		n := 0
		fmt.Sscanf(v, "%d", &n)
		return n
	}
	return 24
}

// lazyCell returns the cell at absolute index i of a lazy array.
func (m *Machine) lazyCell(a *ArrObj, i int) *Cell {
	if cl, ok := a.Sparse[i]; ok {
		return cl
	}
	cl := m.newCell(a.ElemT)
	a.Sparse[i] = cl
	return cl
}

func (g *G) lazyIndex(s *SliceV, idx *Term) Value {
	m := g.m
	c := m.ctx
	idx = m.simp(idx)
	ok := c.Ult(idx, s.SymLen)
	if !m.cond2("lazyidx", ok) {
		g.throw("index", "index out of range")
	}
	if !idx.IsConst() {
		m.unsupported("symbolic index into attacker-sized buffer")
	}
	return m.lazyCell(s.Arr, s.Off+int(idx.Val))
}

func (m *Machine) sizeof(t types.Type) int64 {
	switch u := under(t).(type) {
	case *types.Basic:
		switch u.Kind() {
		case types.Bool, types.Int8, types.Uint8:
			return 1
		case types.Int16, types.Uint16:
			return 2
		case types.Int32, types.Uint32, types.Float32:
			return 4
		case types.String:
			return 16
		}
		return 8
	case *types.Slice:
		return 24
	case *types.Interface:
		return 16
	case *types.Struct:
		var n int64
		for i := 0; i < u.NumFields(); i++ {
			n += (m.sizeof(u.Field(i).Type()) + 7) &^ 7
		}
		return n
	case *types.Array:
		return u.Len() * m.sizeof(u.Elem())
	}
	return 8
}

func (g *G) sliceOp(fr *Frame, x *ssa.Slice) Value {
	m := g.m
	c := m.ctx
	base := g.get(fr, x.X)
	var lo, hi, max *Term
	if x.Low != nil {
		lo = m.simp(g.idxTerm(g.get(fr, x.Low), x.Low.Type()))
	}
	if x.High != nil {
		hi = m.simp(g.idxTerm(g.get(fr, x.High), x.High.Type()))
	}
	if x.Max != nil {
		max = m.simp(g.idxTerm(g.get(fr, x.Max), x.Max.Type()))
	}
	switch b := base.(type) {
	case *StrV:
		bs := b.Bytes()
		l, h := g.sliceBounds(lo, hi, nil, len(bs), len(bs))
		return &StrV{b: bs[l:h]}
	case *SliceV:
		if b != nil && b.SymLen != nil {
			// lazy slice: only s[k:] with concrete k and s[:] supported
			if hi != nil || max != nil {
				m.unsupported("slicing attacker-sized buffer with upper bound")
			}
			if lo == nil {
				return b
			}
			okc := c.Ule(lo, b.SymLen)
			if !m.cond2("lazyslice", okc) {
				g.throw("slice", "slice bounds out of range")
			}
			if !lo.IsConst() {
				m.unsupported("symbolic low bound on attacker-sized buffer")
			}
			k := int(lo.Val)
			return &SliceV{Arr: b.Arr, Off: b.Off + k, Len: 0, Cap: 0, SymLen: c.Sub(b.SymLen, lo)}
		}
		if b.IsNil() {
			g.sliceBounds(lo, hi, max, 0, 0)
			if x.Low == nil && x.High == nil {
				return (*SliceV)(nil)
			}
			return (*SliceV)(nil)
		}
		l, h := g.sliceBounds(lo, hi, max, b.Len, b.Cap)
		ncap := b.Cap - l
		if max != nil {
			ncap = int(max.SVal()) - l
		}
		return &SliceV{Arr: b.Arr, Off: b.Off + l, Len: h - l, Cap: ncap}
	case *Cell:
		if b == nil {
			g.throw("nil-deref", "invalid memory address or nil pointer dereference")
		}
		n := len(b.Kids)
		l, h := g.sliceBounds(lo, hi, max, n, n)
		at := under(b.T).(*types.Array)
		arr := &ArrObj{ElemT: at.Elem(), Cells: b.Kids}
		ncap := n - l
		if max != nil {
			ncap = int(max.SVal()) - l
		}
		return &SliceV{Arr: arr, Off: l, Len: h - l, Cap: ncap}
	}
	m.unsupported("slice of %T", base)
	return nil
}

// sliceBounds checks 0 <= lo <= hi <= max <= cap (default hi = len) and concretises the bounds.
func (g *G) sliceBounds(lo, hi, max *Term, length, capacity int) (int, int) {
	m := g.m
	c := m.ctx
	if lo == nil {
		lo = c.BV(64, 0)
	}
	limit := capacity
	if hi == nil {
		hi = c.BV(64, uint64(length))
	}
	if max != nil {
		okm := c.Ule(max, c.BV(64, uint64(capacity)))
		if !m.cond2("slicemax", okm) {
			g.throw("slice", "slice bounds out of range [::max] with capacity")
		}
		mv := m.concretizeInt("slicemaxval", max, 0, int64(capacity))
		max = c.BV(64, uint64(mv))
		limit = int(mv)
	}
	// for strings the upper limit is the length (capacity == length passed by caller)
	okh := c.Ule(hi, c.BV(64, uint64(limit)))
	if !m.cond2("slicehi", okh) {
		g.throw("slice", fmt.Sprintf("slice bounds out of range [:hi] with capacity %d", limit))
	}
	h := int(m.concretizeInt("slicehival", hi, 0, int64(limit)))
	okl := c.Ule(lo, c.BV(64, uint64(h)))
	if !m.cond2("slicelo", okl) {
		g.throw("slice", fmt.Sprintf("slice bounds out of range [lo:%d]", h))
	}
	l := int(m.concretizeInt("sliceloval", lo, 0, int64(h)))
	return l, h
}

// ---- builtins ----

func (g *G) builtin(b *ssa.Builtin, args []Value, cc *ssa.CallCommon) Value {
	m := g.m
	c := m.ctx
	switch b.Name() {
	case "len":
		switch x := args[0].(type) {
		case *StrV:
			return c.BV(64, uint64(len(x.Bytes())))
		case *SliceV:
			if x.IsNil() {
				return c.BV(64, 0)
			}
			if x.SymLen != nil {
				return x.SymLen
			}
			return c.BV(64, uint64(x.Len))
		case *MapObj:
			if x == nil {
				return c.BV(64, 0)
			}
			g.onReadMap(x)
			return c.BV(64, uint64(len(x.Entries)))
		case *ArrayV:
			return c.BV(64, uint64(len(x.E)))
		case *Cell:
			return c.BV(64, uint64(len(x.Kids)))
		case nil:
			return c.BV(64, 0)
		}
	case "cap":
		switch x := args[0].(type) {
		case *SliceV:
			if x.IsNil() {
				return c.BV(64, 0)
			}
			if x.SymLen != nil {
				return x.SymLen
			}
			return c.BV(64, uint64(x.Cap))
		case *ArrayV:
			return c.BV(64, uint64(len(x.E)))
		case *Cell:
			return c.BV(64, uint64(len(x.Kids)))
		}
	case "append":
		return g.appendOp(args[0], args[1], cc)
	case "copy":
		return g.copyOp(args[0], args[1])
	case "delete":
		mo, _ := args[0].(*MapObj)
		g.mapDelete(mo, args[1])
		return nil
	case "print", "println":
		return nil
	case "recover":
		if g.curPanic != nil && g.curPanic.panicking != nil {
			p := g.curPanic.panicking
			g.curPanic.panicking = nil
			if iv, ok := p.val.(*IfaceV); ok {
				if iv != nil && iv.T == nil {
					// runtime error: give it an error-like dynamic type (string) for inspection
					return &IfaceV{T: types.Typ[types.String], V: iv.V}
				}
				return iv
			}
			return &IfaceV{T: types.Typ[types.String], V: m.strConst("panic")}
		}
		return (*IfaceV)(nil)
	case "min", "max":
		r := args[0].(*Term)
		sg := true
		if cc != nil {
			sg = isSigned(cc.Args[0].Type())
		}
		for _, a := range args[1:] {
			t := a.(*Term)
			var lt *Term
			if t.Sort == SFP {
				lt = c.FLt(t, r)
			} else if sg {
				lt = c.Slt(t, r)
			} else {
				lt = c.Ult(t, r)
			}
			if b.Name() == "min" {
				r = c.Ite(lt, t, r)
			} else {
				r = c.Ite(lt, r, t)
			}
		}
		return r
	case "ssa:wrapnilchk":
		p, _ := args[0].(*Cell)
		if p == nil {
			g.throw("nil-deref", "value method called using nil pointer")
		}
		return args[0]
	case "clear":
		switch x := args[0].(type) {
		case *MapObj:
			if x != nil {
				x.Entries = nil
			}
		case *SliceV:
			for i := 0; x != nil && i < x.Len; i++ {
				cl := x.Arr.Cells[x.Off+i]
				m.store(cl, m.zero(cl.T))
			}
		}
		return nil
	}
	m.unsupported("builtin %s on %T", b.Name(), args[0])
	return nil
}

func (g *G) elemValues(src Value) []Value {
	m := g.m
	switch s := src.(type) {
	case *StrV:
		bs := s.Bytes()
		out := make([]Value, len(bs))
		for i, b := range bs {
			out[i] = b
		}
		return out
	case *SliceV:
		if s.IsNil() {
			return nil
		}
		if s.SymLen != nil {
			m.unsupported("reading attacker-sized buffer as a whole")
		}
		g.onReadSlice(s)
		out := make([]Value, s.Len)
		for i := 0; i < s.Len; i++ {
			out[i] = m.load(s.Arr.Cells[s.Off+i])
		}
		return out
	case nil:
		return nil
	}
	m.unsupported("elements of %T", src)
	return nil
}

func (g *G) appendOp(dst, src Value, cc *ssa.CallCommon) Value {
	m := g.m
	d, _ := dst.(*SliceV)
	vals := g.elemValues(src)
	if len(vals) == 0 {
		if d == nil {
			return (*SliceV)(nil)
		}
		return d
	}
	var elemT types.Type
	if cc != nil {
		elemT = under(cc.Args[0].Type()).(*types.Slice).Elem()
	} else if d != nil && d.Arr != nil {
		elemT = d.Arr.ElemT
	} else {
		m.unsupported("append without type information")
	}
	if d != nil && d.SymLen != nil {
		m.unsupported("append to attacker-sized buffer")
	}
	oldLen, oldCap := 0, 0
	if !d.IsNil() {
		oldLen, oldCap = d.Len, d.Cap
	}
	need := oldLen + len(vals)
	if need <= oldCap {
		for i, v := range vals {
			cl := d.Arr.Cells[d.Off+oldLen+i]
			g.onWrite(cl)
			m.store(cl, v)
		}
		return &SliceV{Arr: d.Arr, Off: d.Off, Len: need, Cap: oldCap}
	}
	// grow (runtime.growslice policy without size-class rounding)
	newCap := oldCap
	doubled := newCap + newCap
	if need > doubled {
		newCap = need
	} else if oldCap < 256 {
		newCap = doubled
	} else {
		for newCap < need {
			newCap += (newCap + 3*256) / 4
		}
	}
	newCap = roundCap(newCap, m.sizeof(elemT))
	a := &ArrObj{ElemT: elemT, Cells: make([]*Cell, newCap)}
	for i := 0; i < oldLen; i++ {
		cl := m.newCell(elemT)
		m.store(cl, m.load(d.Arr.Cells[d.Off+i]))
		a.Cells[i] = cl
	}
	for i, v := range vals {
		cl := m.newCell(elemT)
		m.store(cl, v)
		a.Cells[oldLen+i] = cl
	}
	for i := need; i < newCap; i++ {
		a.Cells[i] = m.newCell(elemT)
	}
	return &SliceV{Arr: a, Off: 0, Len: need, Cap: newCap}
}

// roundCap mimics the size-class rounding of runtime.growslice for small allocations.
func roundCap(n int, esz int64) int {
	if esz <= 0 {
		return n
	}
	classes := []int64{8, 16, 24, 32, 48, 64, 80, 96, 112, 128, 144, 160, 176, 192, 208, 224, 240, 256, 288, 320, 352, 384, 416, 448, 480, 512, 576, 640, 704, 768, 896, 1024, 1152, 1280, 1408, 1536, 1792, 2048, 2304, 2688, 3072, 3200, 3456, 4096, 4864, 5376, 6144, 6528, 6784, 6912, 8192, 9472, 9728, 10240, 10880, 12288, 13568, 14336, 16384, 18432, 19072, 20480, 21760, 24576, 27264, 28672, 32768}
	bytes := int64(n) * esz
	for _, c := range classes {
		if bytes <= c {
			return int(c / esz)
		}
	}
	return n
}

func (g *G) copyOp(dst, src Value) Value {
	m := g.m
	c := m.ctx
	d, _ := dst.(*SliceV)
	if d != nil && d.SymLen != nil {
		// copy into attacker-sized buffer: all of src fits iff len(src) <= SymLen
		vals := g.elemValues(src)
		n := len(vals)
		fits := c.Ule(c.BV(64, uint64(n)), d.SymLen)
		if !m.cond2("lazycopy", fits) {
			// partial copy: concretise the destination length (it is < n)
			k := int(m.concretizeInt("lazycopy-len", d.SymLen, 0, int64(n-1)))
			n = k
		}
		for i := 0; i < n; i++ {
			m.store(m.lazyCell(d.Arr, d.Off+i), vals[i])
		}
		return c.BV(64, uint64(n))
	}
	vals := g.elemValues(src)
	n := len(vals)
	if d.IsNil() {
		return c.BV(64, 0)
	}
	if d.Len < n {
		n = d.Len
	}
	for i := 0; i < n; i++ {
		cl := d.Arr.Cells[d.Off+i]
		g.onWrite(cl)
		m.store(cl, vals[i])
	}
	return c.BV(64, uint64(n))
}
