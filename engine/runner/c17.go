package runner

import (
	"bufio"
	"fmt"
	"io"
	"os"
	"os/exec"
	"path/filepath"
	"regexp"
	"regexp/syntax"
	"sort"
	"strconv"
	"strings"
	"sync"
	"time"

	"verif/engine/sym"
)

// C17: patterns are enumerated, keys are decided by the solver.
// For each pattern the regular expression that the real code produces (glob.Compile and the SCAN MATCH
// argument parser, obtained from a native helper built against the current tree) is translated to an
// SMT-LIB regular language with Go's unanchored-search semantics and compared with the glob definition:
//   exists key (|key| <= bound, ASCII): key in L_impl xor key in L_ref ?

var c17Alphabet = []string{"a", "b", "*", "?", ".", "+", "(", ")", "|", "^", "$", "{", "}", "[", "]", "\\", "\n"}

func c17Patterns(maxLen int) []string {
	out := []string{""}
	prev := []string{""}
	for l := 1; l <= maxLen; l++ {
		var cur []string
		for _, p := range prev {
			for _, a := range c17Alphabet {
				cur = append(cur, p+a)
			}
		}
		out = append(out, cur...)
		prev = cur
	}
	return out
}

const (
	sentBegin = 0x100
	sentEnd   = 0x101
)

func smtChar(r rune) string { return fmt.Sprintf("\"\\u{%x}\"", r) }

func smtLit(s string) string {
	var sb strings.Builder
	sb.WriteByte('"')
	for _, r := range s {
		fmt.Fprintf(&sb, "\\u{%x}", r)
	}
	sb.WriteByte('"')
	return sb.String()
}

const reASCII = "(re.range \"\\u{0}\" \"\\u{7f}\")"

var reSigmaExt = fmt.Sprintf("(re.union %s (str.to_re %s) (str.to_re %s))", reASCII, smtChar(sentBegin), smtChar(sentEnd))

// reOfSyntax translates a parsed Go regular expression into an SMT-LIB RegLan over ASCII + sentinels.
func reOfSyntax(re *syntax.Regexp) (string, error) {
	switch re.Op {
	case syntax.OpNoMatch:
		return "re.none", nil
	case syntax.OpEmptyMatch:
		return "(str.to_re \"\")", nil
	case syntax.OpLiteral:
		if re.Flags&syntax.FoldCase != 0 {
			return "", fmt.Errorf("case folding not supported")
		}
		return "(str.to_re " + smtLit(string(re.Rune)) + ")", nil
	case syntax.OpCharClass:
		var parts []string
		for i := 0; i+1 < len(re.Rune); i += 2 {
			lo, hi := re.Rune[i], re.Rune[i+1]
			if lo > 0x7f {
				continue
			}
			if hi > 0x7f {
				hi = 0x7f
			}
			parts = append(parts, fmt.Sprintf("(re.range %s %s)", smtChar(lo), smtChar(hi)))
		}
		switch len(parts) {
		case 0:
			return "re.none", nil
		case 1:
			return parts[0], nil
		}
		return "(re.union " + strings.Join(parts, " ") + ")", nil
	case syntax.OpAnyChar:
		return reASCII, nil
	case syntax.OpAnyCharNotNL:
		return "(re.union (re.range \"\\u{0}\" \"\\u{9}\") (re.range \"\\u{b}\" \"\\u{7f}\"))", nil
	case syntax.OpBeginText:
		return "(str.to_re " + smtChar(sentBegin) + ")", nil
	case syntax.OpEndText:
		return "(str.to_re " + smtChar(sentEnd) + ")", nil
	case syntax.OpBeginLine, syntax.OpEndLine, syntax.OpWordBoundary, syntax.OpNoWordBoundary:
		return "", fmt.Errorf("zero-width assertion %v not supported", re.Op)
	case syntax.OpCapture:
		return reOfSyntax(re.Sub[0])
	case syntax.OpStar, syntax.OpPlus, syntax.OpQuest:
		s, err := reOfSyntax(re.Sub[0])
		if err != nil {
			return "", err
		}
		op := map[syntax.Op]string{syntax.OpStar: "re.*", syntax.OpPlus: "re.+", syntax.OpQuest: "re.opt"}[re.Op]
		return "(" + op + " " + s + ")", nil
	case syntax.OpRepeat:
		s, err := reOfSyntax(re.Sub[0])
		if err != nil {
			return "", err
		}
		if re.Max < 0 {
			return fmt.Sprintf("(re.++ ((_ re.^ %d) %s) (re.* %s))", re.Min, s, s), nil
		}
		return fmt.Sprintf("((_ re.loop %d %d) %s)", re.Min, re.Max, s), nil
	case syntax.OpConcat, syntax.OpAlternate:
		var parts []string
		for _, sub := range re.Sub {
			s, err := reOfSyntax(sub)
			if err != nil {
				return "", err
			}
			parts = append(parts, s)
		}
		if len(parts) == 1 {
			return parts[0], nil
		}
		op := "re.++"
		if re.Op == syntax.OpAlternate {
			op = "re.union"
		}
		return "(" + op + " " + strings.Join(parts, " ") + ")", nil
	}
	return "", fmt.Errorf("regexp op %v not supported", re.Op)
}

// refGlobRe is the glob definition: '*' any sequence, '?' any single character, anything else itself.
func refGlobRe(p string) string {
	parts := []string{"(str.to_re " + smtChar(sentBegin) + ")"}
	for _, r := range p {
		switch r {
		case '*':
			parts = append(parts, "(re.* "+reASCII+")")
		case '?':
			parts = append(parts, reASCII)
		default:
			parts = append(parts, "(str.to_re "+smtChar(r)+")")
		}
	}
	parts = append(parts, "(str.to_re "+smtChar(sentEnd)+")")
	return "(re.++ " + strings.Join(parts, " ") + ")"
}

func refGlobMatch(p, k string) bool {
	if p == "" {
		return k == ""
	}
	switch p[0] {
	case '*':
		for i := 0; i <= len(k); i++ {
			if refGlobMatch(p[1:], k[i:]) {
				return true
			}
		}
		return false
	case '?':
		return k != "" && refGlobMatch(p[1:], k[1:])
	}
	return k != "" && k[0] == p[0] && refGlobMatch(p[1:], k[1:])
}

type strSolver struct {
	cmd *exec.Cmd
	in  io.WriteCloser
	out *bufio.Reader
}

func newStrSolver() (*strSolver, error) {
	cmd := exec.Command("z3-new", "-in", "-t:20000")
	in, _ := cmd.StdinPipe()
	outp, _ := cmd.StdoutPipe()
	cmd.Stderr = cmd.Stdout
	if err := cmd.Start(); err != nil {
		return nil, err
	}
	s := &strSolver{cmd: cmd, in: in, out: bufio.NewReader(outp)}
	io.WriteString(in, "(set-option :produce-models true)\n")
	return s, nil
}

func (s *strSolver) close() {
	s.in.Close()
	s.cmd.Process.Kill()
	s.cmd.Wait()
}

// differ asks for a key on which the two languages disagree.
func (s *strSolver) differ(impl, ref string, maxLen int) (res string, key string, err error) {
	q := fmt.Sprintf("(push 1)\n(declare-const k String)\n(assert (str.in_re k (re.* %s)))\n(assert (<= (str.len k) %d))\n(define-fun t () String (str.++ %s k %s))\n(assert (xor (str.in_re t (re.++ (re.* %s) %s (re.* %s))) (str.in_re t %s)))\n(check-sat)\n",
		reASCII, maxLen, smtChar(sentBegin), smtChar(sentEnd), reSigmaExt, impl, reSigmaExt, ref)
	io.WriteString(s.in, q)
	type rd struct {
		line string
		err  error
	}
	readLine := func() (string, error) {
		rch := make(chan rd, 1)
		go func() {
			l, e := s.out.ReadString('\n')
			rch <- rd{l, e}
		}()
		select {
		case r := <-rch:
			return strings.TrimSpace(r.line), r.err
		case <-time.After(40 * time.Second):
			s.cmd.Process.Kill()
			return "", fmt.Errorf("string solver exceeded the hard limit")
		}
	}
	var errLine string
	for {
		l, rerr := readLine()
		if rerr != nil {
			return "timeout", "", rerr
		}
		if l == "sat" || l == "unsat" || l == "unknown" || l == "timeout" {
			res = l
			break
		}
		if strings.HasPrefix(l, "(error") {
			errLine = l
		}
	}
	if errLine != "" {
		io.WriteString(s.in, "(pop 1)\n")
		return "error", "", fmt.Errorf("%s", errLine)
	}
	if res == "sat" {
		io.WriteString(s.in, "(get-value (k))\n")
		// the value is printed on one line (special characters as \u{..} escapes)
		l, _ := readLine()
		key = parseSMTString(l)
	}
	io.WriteString(s.in, "(pop 1)\n")
	return res, key, nil
}

func parseSMTString(l string) string {
	i := strings.Index(l, "\"")
	j := strings.LastIndex(l, "\"")
	if i < 0 || j <= i {
		return ""
	}
	raw := l[i+1 : j]
	raw = strings.ReplaceAll(raw, "\"\"", "\"")
	var sb strings.Builder
	for k := 0; k < len(raw); k++ {
		if raw[k] == '\\' && k+2 < len(raw) && raw[k+1] == 'u' && raw[k+2] == '{' {
			e := strings.IndexByte(raw[k:], '}')
			if e > 0 {
				n, _ := strconv.ParseInt(raw[k+3:k+e], 16, 32)
				sb.WriteRune(rune(n))
				k += e
				continue
			}
		}
		sb.WriteByte(raw[k])
	}
	return sb.String()
}

func (rc *RunCtx) runProbe(set, harness, inFile string) (map[string]string, []string, error) {
	outFile := filepath.Join(rc.St.Dir, harness+".out")
	f := &sym.Finding{Harness: harness, Kind: "probe", ID: "probe"}
	path, err := rc.St.WriteReplaySet(filepath.Join(rc.St.Dir, "probes"), "C17", set, f)
	if err != nil {
		return nil, nil, err
	}
	o, err := rc.St.ReplayFileEnv(set, path, 5*time.Minute, false, "VSYM_C17_IN="+inFile, "VSYM_C17_OUT="+outFile)
	if err != nil {
		return nil, nil, err
	}
	if !o.Ended {
		return nil, nil, fmt.Errorf("probe %s did not finish: %s", harness, o.Summary())
	}
	b, err := os.ReadFile(outFile)
	if err != nil {
		return nil, nil, err
	}
	res := map[string]string{}
	var lines []string
	for _, line := range strings.Split(string(b), "\n") {
		if line == "" {
			continue
		}
		lines = append(lines, line)
		parts := strings.SplitN(line, "\t", 2)
		if len(parts) != 2 {
			continue
		}
		p, err := strconv.Unquote(parts[0])
		if err != nil {
			continue
		}
		res[p] = parts[1]
	}
	return res, lines, nil
}

func c17Extra(rc *RunCtx) error {
	maxLen, keyLen := 3, 8
	if rc.Tier == "thorough" {
		maxLen = 4
	}
	pats := c17Patterns(maxLen)
	if rc.Tier == "thorough" {
		// the property's own alphabet {a b * ? . + ( | $}, complete up to length 5
		seen := map[string]bool{}
		for _, p := range pats {
			seen[p] = true
		}
		small := []string{"a", "b", "*", "?", ".", "+", "(", "|", "$"}
		prev := []string{""}
		for l := 1; l <= 5; l++ {
			var cur []string
			for _, p := range prev {
				for _, a := range small {
					cur = append(cur, p+a)
				}
			}
			for _, p := range cur {
				if !seen[p] {
					seen[p] = true
					pats = append(pats, p)
				}
			}
			prev = cur
		}
	}
	inFile := filepath.Join(rc.St.Dir, "c17-patterns.txt")
	var sb strings.Builder
	for _, p := range pats {
		sb.WriteString(strconv.Quote(p))
		sb.WriteByte('\n')
	}
	if err := os.WriteFile(inFile, []byte(sb.String()), 0o644); err != nil {
		return err
	}
	globSrc, _, err := rc.runProbe("glob", "ProbeC17Glob", inFile)
	if err != nil {
		return err
	}
	scanSrc, _, err := rc.runProbe("redis", "ProbeC17Scan", inFile)
	if err != nil {
		return err
	}
	// end-to-end KEYS / SCAN on the example store for the shorter patterns (enumerated differential)
	shortFile := filepath.Join(rc.St.Dir, "c17-short.txt")
	var sb2 strings.Builder
	nShort := 0
	for _, p := range pats {
		if len(p) <= 3 || rc.Tier == "thorough" {
			sb2.WriteString(strconv.Quote(p))
			sb2.WriteByte('\n')
			nShort++
		}
	}
	os.WriteFile(shortFile, []byte(sb2.String()), 0o644)
	_, keyLines, err := rc.runProbe("server", "ProbeC17Keys", shortFile)
	if err != nil {
		return err
	}

	type job struct {
		p    string
		impl string // quoted source or ERR
		who  string
	}
	var jobs []job
	for _, p := range pats {
		g, ok := globSrc[p]
		if !ok {
			rc.inconclusive("no probe output for pattern %q", p)
			continue
		}
		jobs = append(jobs, job{p, g, "glob.Compile"})
		if s, ok := scanSrc[p]; ok && s != g {
			jobs = append(jobs, job{p, s, "SCAN MATCH"})
		} else if !ok {
			rc.inconclusive("no SCAN probe output for pattern %q", p)
		}
	}
	var mu sync.Mutex
	queries, unsat, sat, unknown := 0, 0, 0, 0
	var solverTime time.Duration
	violations := map[string]string{}
	var samples []interface{}
	ch := make(chan job, len(jobs))
	for _, j := range jobs {
		ch <- j
	}
	close(ch)
	var wg sync.WaitGroup
	for w := 0; w < rc.Workers; w++ {
		wg.Add(1)
		go func() {
			defer wg.Done()
			sv, err := newStrSolver()
			if err != nil {
				rc.inconclusive("cannot start string solver: %v", err)
				return
			}
			defer sv.close()
			n := 0
			for j := range ch {
				n++
				if n%400 == 0 {
					sv.close()
					if sv, err = newStrSolver(); err != nil {
						rc.inconclusive("cannot restart string solver: %v", err)
						return
					}
				}
				if strings.HasPrefix(j.impl, "ERR") || strings.HasPrefix(j.impl, "PANIC") {
					mu.Lock()
					violations[j.who+"|compile"] = fmt.Sprintf("%s of pattern %s fails: %s", j.who, strconv.Quote(j.p), j.impl)
					mu.Unlock()
					continue
				}
				src, err := strconv.Unquote(j.impl)
				if err != nil {
					rc.inconclusive("bad probe line for %q", j.p)
					continue
				}
				parsed, err := syntax.Parse(src, syntax.Perl)
				if err != nil {
					rc.inconclusive("cannot parse regexp %q: %v", src, err)
					continue
				}
				impl, err := reOfSyntax(parsed.Simplify())
				if err != nil {
					rc.inconclusive("cannot translate regexp %q of pattern %q: %v", src, j.p, err)
					continue
				}
				t0 := time.Now()
				res, key, err := sv.differ(impl, refGlobRe(j.p), keyLen)
				dt := time.Since(t0)
				if res == "timeout" || res == "" {
					sv.close()
					if sv, _ = newStrSolver(); sv == nil {
						return
					}
				}
				mu.Lock()
				queries++
				solverTime += dt
				switch res {
				case "unsat":
					unsat++
					if len(samples) < 8 && len(j.p) == maxLen && queries%97 == 0 {
						samples = append(samples, map[string]interface{}{"pattern": j.p, "via": j.who, "regexp": src, "verdict": "no key of length <= 8 distinguishes it from the glob definition (unsat)"})
					}
				case "sat":
					sat++
					// replay: the real regexp library on the real source against the reference matcher
					re, cerr := regexp.Compile(src)
					if cerr == nil && re.MatchString(key) != refGlobMatch(j.p, key) {
						k := j.who + "|" + classify(j.p)
						if _, ok := violations[k]; !ok {
							violations[k] = fmt.Sprintf("%s: pattern %s compiles to %s which %s key %s, the glob definition says %v", j.who, strconv.Quote(j.p), strconv.Quote(src), map[bool]string{true: "matches", false: "does not match"}[re.MatchString(key)], strconv.Quote(key), refGlobMatch(j.p, key))
						}
					} else {
						rc.inconclusive("translator mismatch for pattern %q (regexp %q, witness %q does not distinguish natively)", j.p, src, key)
					}
				default:
					unknown++
					rc.inconclusive("string solver answered %q for pattern %q: %v", res, j.p, err)
				}
				mu.Unlock()
			}
		}()
	}
	wg.Wait()

	// enumerated end-to-end check: KEYS and SCAN select exactly the keys the glob definition selects
	alpha := []string{"a", "b", ".", "+", "\n"}
	var keys []string
	for _, x := range alpha {
		keys = append(keys, x)
		for _, y := range alpha {
			keys = append(keys, x+y)
		}
	}
	e2e := 0
	for _, line := range keyLines {
		parts := strings.Split(line, "\t")
		if len(parts) != 5 {
			continue
		}
		p, _ := strconv.Unquote(parts[0])
		ksel, _ := strconv.Unquote(parts[2])
		ssel, _ := strconv.Unquote(parts[4])
		var want []string
		for _, k := range keys {
			if refGlobMatch(p, k) {
				want = append(want, k)
			}
		}
		sort.Strings(want)
		ws := strings.Join(want, "\x00")
		e2e++
		if parts[1] == "true" || ksel != ws {
			k := "KEYS|" + classify(p)
			if _, ok := violations[k]; !ok {
				violations[k] = fmt.Sprintf("KEYS %s on the example store selects %q (error=%s), the glob definition selects %q", strconv.Quote(p), strings.Split(ksel, "\x00"), parts[1], want)
			}
		}
		if parts[3] == "true" || ssel != ws {
			k := "SCAN|" + classify(p)
			if _, ok := violations[k]; !ok {
				violations[k] = fmt.Sprintf("SCAN 0 MATCH %s on the example store selects %q (error=%s), the glob definition selects %q", strconv.Quote(p), strings.Split(ssel, "\x00"), parts[3], want)
			}
		}
	}
	if e2e != nShort {
		rc.inconclusive("end-to-end probe covered %d of %d patterns", e2e, nShort)
	}
	var vkeys []string
	for k := range violations {
		vkeys = append(vkeys, k)
	}
	sort.Strings(vkeys)
	os.MkdirAll(filepath.Join(rc.Verif, "replays", "C17"), 0o755)
	for i, k := range vkeys {
		path := filepath.Join(rc.Verif, "replays", "C17", fmt.Sprintf("pattern-%d.txt", i))
		os.WriteFile(path, []byte(violations[k]+"\n"), 0o644)
		f := &sym.Finding{Kind: "glob", ID: strings.SplitN(k, "|", 2)[0], Site: strings.SplitN(k, "|", 2)[1], Tags: map[string]string{}}
		matched := false
		for _, kf := range loadKnown(rc.Verif) {
			if kf.matches("C17", f) {
				rc.Known = append(rc.Known, fmt.Sprintf("KNOWN-FINDING: property=C17 %s [%s]", kf.What, violations[k]))
				matched = true
				break
			}
		}
		if !matched {
			rc.Violation = append(rc.Violation, fmt.Sprintf("VIOLATION property=C17 replay=%s %s", path, violations[k]))
		}
	}
	if len(samples) == 0 {
		samples = append(samples, map[string]interface{}{"patterns": len(pats), "note": "see queries"})
	}
	rc.Samples = append(rc.Samples, samples...)
	rc.Validated += e2e
	rc.Extra["c17"] = map[string]interface{}{
		"patterns": len(pats), "pattern_alphabet": c17Alphabet, "max_pattern_len": maxLen, "second_alphabet": map[string]interface{}{"thorough_only": true, "symbols": "a b * ? . + ( | $", "max_pattern_len": 5}, "key_len_bound": keyLen,
		"solver_queries": queries, "unsat": unsat, "sat": sat, "unknown": unknown, "solver_time_s": solverTime.Seconds(),
		"end_to_end_patterns_on_example_store": e2e, "end_to_end_keys": len(keys),
		"functions_encoded": []string{"redis/glob.Compile (regexpFromGlob)", "redis.nextScanArgument (MATCH)", "examples/go-redisd/server.(*Server).Keys", "examples/go-redisd/server.(*Server).Scan"},
	}
	rc.Extra["states_override"] = queries + e2e
	return nil
}

// classify groups patterns by the kind of special characters they contain (for deduplicated reporting).
func classify(p string) string {
	var cls []string
	for _, c := range []string{".", "+", "(", ")", "|", "^", "$", "{", "}", "[", "]", "\\", "\n", "*", "?"} {
		if strings.Contains(p, c) {
			cls = append(cls, strconv.Quote(c))
		}
	}
	if len(cls) == 0 {
		return "plain"
	}
	return strings.Join(cls, "")
}

func init() {
	register(&Prop{
		ID:    "C17",
		Extra: c17Extra,
		Bounds: func(tier string) map[string]interface{} {
			n := 3
			if tier == "thorough" {
				n = 4
			}
			return map[string]interface{}{"patterns": fmt.Sprintf("every string of length 0..%d over {a b * ? . + ( ) | ^ $ { } [ ] \\ LF} (enumerated)", n), "keys": "every ASCII string of length 0..8 (decided by the solver per pattern)", "end_to_end": "KEYS p and SCAN 0 MATCH p on the example store holding all 30 keys of length 1..2 over {a b . + LF}, for every enumerated pattern"}
		},
		Assumptions: []string{
			"the pattern side is enumerated (compiling a symbolic pattern would mean symbolically executing regexp/syntax); the key side is universally quantified by the SMT string solver (z3 5.1.0 sequence/regex theory)",
			"the regular expression source is obtained from the real code of the current tree by a native helper (glob.Compile(p).String(), nextScanArgument MATCH); Go's regexp package is trusted to implement the source it is given",
			"translation of regexp/syntax ASTs to SMT-LIB RegLan is trusted code; every solver witness is replayed through the real regexp library and a witness that does not distinguish natively makes the run inconclusive",
			"keys and patterns are ASCII; patterns with bytes >= 0x80 are outside the claim",
		},
		Outside: []string{"longer patterns, non-ASCII patterns and keys, keys longer than 8"},
	})
}
