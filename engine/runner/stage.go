// Package runner orchestrates harness staging, exploration jobs, native replay and evidence.
package runner

import (
	"bytes"
	"context"
	"encoding/json"
	"fmt"
	"os"
	"os/exec"
	"path/filepath"
	"strings"
	"sync"
	"time"

	"verif/engine/sym"
)

// harness set name -> (package dir relative to the repo, package name)
var sets = map[string][2]string{
	"proto":  {"redis/proto", "proto"},
	"redis":  {"redis", "redis"},
	"auth":   {"redis/auth", "auth"},
	"server": {"examples/go-redisd/server", "server"},
	"glob":   {"redis/glob", "glob"},
}

const modulePath = "github.com/cybergarage/go-redis"

func PkgPath(set string) string { return modulePath + "/" + sets[set][0] }

// Staged is a temporary directory with instantiated harness sources.
type Staged struct {
	Dir    string
	Verif  string
	Repo   string
	mu     sync.Mutex
	bins   map[string]string // set -> compiled replay test binary
	Tags   string
	nextID int
}

func Stage(verif, repo string) (*Staged, error) {
	dir, err := os.MkdirTemp("", "symgo-stage-")
	if err != nil {
		return nil, err
	}
	st := &Staged{Dir: dir, Verif: verif, Repo: repo, bins: map[string]string{}, Tags: "verif"}
	vs, err := os.ReadFile(filepath.Join(verif, "harness/common/vsym.go.tmpl"))
	if err != nil {
		return nil, err
	}
	rt, err := os.ReadFile(filepath.Join(verif, "harness/common/replay_test.go.tmpl"))
	if err != nil {
		return nil, err
	}
	for set, info := range sets {
		src := filepath.Join(verif, "harness", set)
		ents, err := os.ReadDir(src)
		if err != nil {
			continue
		}
		dst := filepath.Join(dir, set)
		os.MkdirAll(dst, 0o755)
		n := 0
		for _, e := range ents {
			if !strings.HasSuffix(e.Name(), ".go") {
				continue
			}
			b, err := os.ReadFile(filepath.Join(src, e.Name()))
			if err != nil {
				return nil, err
			}
			os.WriteFile(filepath.Join(dst, e.Name()), b, 0o644)
			n++
		}
		if n == 0 {
			os.RemoveAll(dst)
			continue
		}
		os.WriteFile(filepath.Join(dst, "vsymprims.go"), bytes.ReplaceAll(vs, []byte("PKGNAME"), []byte(info[1])), 0o644)
		os.WriteFile(filepath.Join(dst, "replay_test.go"), bytes.ReplaceAll(rt, []byte("PKGNAME"), []byte(info[1])), 0o644)
	}
	return st, nil
}

func (st *Staged) Cleanup() { os.RemoveAll(st.Dir) }

func (st *Staged) harnessDirs() map[string]string {
	out := map[string]string{}
	for set, info := range sets {
		d := filepath.Join(st.Dir, set)
		if _, err := os.Stat(d); err == nil {
			out[info[0]] = d
		}
	}
	return out
}

func (st *Staged) Load() (*sym.Loaded, error) {
	return sym.Load(st.Repo, []string{"./redis/...", "./examples/go-redisd/server"}, st.harnessDirs(), st.Tags)
}

func cleanEnv(extra ...string) []string {
	var env []string
	for _, kv := range os.Environ() {
		if strings.HasPrefix(kv, "GOFLAGS=") || strings.HasPrefix(kv, "VSYM_") {
			continue
		}
		env = append(env, kv)
	}
	env = append(env, "GOFLAGS=-mod=readonly", "GOPROXY=off", "GOSUMDB=off", "GOTOOLCHAIN=local")
	return append(env, extra...)
}

// overlayFile writes the go build overlay that injects every staged harness file (incl. the replay test).
func (st *Staged) overlayFile() (string, error) {
	repl := map[string]string{}
	for rel, dir := range st.harnessDirs() {
		ents, _ := os.ReadDir(dir)
		for _, e := range ents {
			if strings.HasSuffix(e.Name(), ".go") {
				repl[filepath.Join(st.Repo, rel, "zz_vsym_"+e.Name())] = filepath.Join(dir, e.Name())
			}
		}
	}
	b, _ := json.Marshal(map[string]interface{}{"Replace": repl})
	p := filepath.Join(st.Dir, "overlay.json")
	return p, os.WriteFile(p, b, 0o644)
}

// replayBinary compiles (once) the native replay test binary of a harness set.
func (st *Staged) replayBinary(set string, race bool) (string, error) {
	st.mu.Lock()
	defer st.mu.Unlock()
	key := set
	if race {
		key += "-race"
	}
	if b, ok := st.bins[key]; ok {
		return b, nil
	}
	ov, err := st.overlayFile()
	if err != nil {
		return "", err
	}
	out := filepath.Join(st.Dir, key+".test")
	args := []string{"test", "-c", "-vet=off", "-tags=" + st.Tags, "-overlay", ov, "-o", out}
	if race {
		args = append(args, "-race")
	}
	args = append(args, "./"+sets[set][0])
	cmd := exec.Command("go", args...)
	cmd.Dir = st.Repo
	cmd.Env = cleanEnv()
	if outb, err := cmd.CombinedOutput(); err != nil {
		return "", fmt.Errorf("building replay binary: %v\n%s", err, outb)
	}
	st.bins[key] = out
	return out, nil
}

// ReplayOutcome is what the native run of a replay vector showed.
type ReplayOutcome struct {
	Failed      []string
	Panic       string
	PanicSite   string
	AssumeFalse bool
	Diverged    bool
	Ended       bool
	TimedOut    bool
	Race        bool
	Output      string
	File        string
}

func (o *ReplayOutcome) Summary() string {
	return fmt.Sprintf("failed=%v panic=%q site=%q assumeFalse=%v diverged=%v ended=%v timeout=%v", o.Failed, o.Panic, o.PanicSite, o.AssumeFalse, o.Diverged, o.Ended, o.TimedOut)
}

type replayFile struct {
	Harness  string            `json:"harness"`
	Params   map[string]string `json:"params"`
	Vector   []sym.ReplayEntry `json:"vector"`
	Expected string            `json:"expected"`
	Property string            `json:"property,omitempty"`
	Tags     map[string]string `json:"tags,omitempty"`
	Set      string            `json:"set,omitempty"`
}

// WriteReplay stores a finding's replay vector as a file and returns its path.
func (st *Staged) WriteReplay(dir string, prop string, f *sym.Finding) (string, error) {
	return st.WriteReplaySet(dir, prop, "", f)
}

func (st *Staged) WriteReplaySet(dir string, prop string, set string, f *sym.Finding) (string, error) {
	os.MkdirAll(dir, 0o755)
	st.mu.Lock()
	st.nextID++
	id := st.nextID
	st.mu.Unlock()
	rf := replayFile{Harness: f.Harness, Params: f.Params, Vector: f.Replay, Expected: f.Kind + ":" + f.ID + "@" + f.Site, Property: prop, Tags: f.Tags, Set: set}
	b, _ := json.MarshalIndent(rf, "", " ")
	p := filepath.Join(dir, fmt.Sprintf("%s-%s-%d.json", f.Harness, sanitize(f.ID), id))
	return p, os.WriteFile(p, b, 0o644)
}

func sanitize(s string) string {
	var sb strings.Builder
	for _, r := range s {
		if r >= 'a' && r <= 'z' || r >= 'A' && r <= 'Z' || r >= '0' && r <= '9' || r == '-' || r == '_' {
			sb.WriteRune(r)
		} else {
			sb.WriteByte('_')
		}
	}
	if sb.Len() > 40 {
		return sb.String()[:40]
	}
	return sb.String()
}

// Replay runs a finding natively.
func (st *Staged) Replay(set string, f *sym.Finding, limit time.Duration) (*ReplayOutcome, error) {
	p, err := st.WriteReplay(filepath.Join(st.Dir, "replays"), "", f)
	if err != nil {
		return nil, err
	}
	return st.ReplayFile(set, p, limit, false)
}

func (st *Staged) ReplayFile(set string, path string, limit time.Duration, race bool) (*ReplayOutcome, error) {
	return st.ReplayFileEnv(set, path, limit, race)
}

func (st *Staged) ReplayFileEnv(set string, path string, limit time.Duration, race bool, extraEnv ...string) (*ReplayOutcome, error) {
	bin, err := st.replayBinary(set, race)
	if err != nil {
		return nil, err
	}
	ctx, cancel := context.WithTimeout(context.Background(), limit)
	defer cancel()
	args := []string{"-test.run", "^TestVsymReplay$", "-test.count=1", "-test.timeout", (limit + 5*time.Second).String()}
	cmd := exec.CommandContext(ctx, bin, args...)
	for _, e := range extraEnv {
		if e == "VSYM_NETNS=1" {
			// private network namespace: lifecycle entries bind the fixed default ports
			sh := "ip link set lo up 2>/dev/null; exec \"$0\" \"$@\""
			cmd = exec.CommandContext(ctx, "unshare", append([]string{"-n", "sh", "-c", sh, bin}, args...)...)
		}
	}
	cmd.Dir = filepath.Join(st.Repo, sets[set][0])
	cmd.Env = append(cleanEnv("VSYM_REPLAY="+path), extraEnv...)
	out, _ := cmd.CombinedOutput()
	o := &ReplayOutcome{Output: string(out), File: path}
	if ctx.Err() == context.DeadlineExceeded {
		o.TimedOut = true
	}
	for _, line := range strings.Split(string(out), "\n") {
		switch {
		case strings.HasPrefix(line, "VSYM-ASSERT-FAILED "):
			o.Failed = append(o.Failed, strings.TrimSpace(strings.TrimPrefix(line, "VSYM-ASSERT-FAILED ")))
		case strings.HasPrefix(line, "VSYM-PANIC "):
			rest := strings.TrimPrefix(line, "VSYM-PANIC ")
			if i := strings.LastIndex(rest, " | site="); i >= 0 {
				o.Panic, o.PanicSite = rest[:i], rest[i+8:]
			} else {
				o.Panic = rest
			}
		case strings.HasPrefix(line, "VSYM-ASSUME-FALSE"):
			o.AssumeFalse = true
		case strings.HasPrefix(line, "VSYM-REPLAY-DIVERGED"):
			o.Diverged = true
		case strings.HasPrefix(line, "VSYM-REPLAY-END"):
			o.Ended = true
		case strings.HasPrefix(line, "WARNING: DATA RACE"):
			o.Race = true
		case strings.HasPrefix(line, "panic: ") || strings.HasPrefix(line, "fatal error: "):
			if o.Panic == "" {
				o.Panic = line
			}
		}
	}
	return o, nil
}

func RenderVector(v []sym.ReplayEntry) string {
	var sb strings.Builder
	var run []byte
	flush := func() {
		if len(run) > 0 {
			fmt.Fprintf(&sb, "%q ", string(run))
			run = nil
		}
	}
	for _, e := range v {
		if e.Kind == "sched" {
			continue
		}
		if e.Kind == "byte" {
			run = append(run, byte(e.Val))
			continue
		}
		flush()
		fmt.Fprintf(&sb, "%s=%d ", e.Name, e.Val)
	}
	flush()
	return strings.TrimSpace(sb.String())
}


// CmdReplay re-runs a stored replay file natively and prints what happened.
func CmdReplay(args []string) int {
	if len(args) < 1 {
		fmt.Fprintln(os.Stderr, "usage: symgo replay <file> [repo]")
		return 2
	}
	repo := "/repo"
	if len(args) > 1 {
		repo = args[1]
	}
	b, err := os.ReadFile(args[0])
	if err != nil {
		fmt.Fprintln(os.Stderr, err)
		return 2
	}
	var rf replayFile
	if err := json.Unmarshal(b, &rf); err != nil {
		fmt.Fprintln(os.Stderr, err)
		return 2
	}
	verif := os.Getenv("VERIF_DIR")
	if verif == "" {
		verif = "/verif"
	}
	st, err := Stage(verif, repo)
	if err != nil {
		fmt.Fprintln(os.Stderr, err)
		return 2
	}
	defer st.Cleanup()
	set := rf.Set
	if set == "" {
		set = "redis"
	}
	abs, _ := filepath.Abs(args[0])
	o, err := st.ReplayFile(set, abs, 30*time.Second, strings.HasPrefix(rf.Expected, "race:"))
	if err != nil {
		fmt.Fprintln(os.Stderr, err)
		return 2
	}
	fmt.Printf("expected: %s\ninput: %s\noutcome: %s\n", rf.Expected, RenderVector(rf.Vector), o.Summary())
	fmt.Print(o.Output)
	if len(o.Failed) > 0 || o.Panic != "" || o.TimedOut || o.Race {
		return 1
	}
	return 0
}
