package runner

import (
	"fmt"
	"time"
)

func p(kv ...string) map[string]string {
	m := map[string]string{}
	for i := 0; i+1 < len(kv); i += 2 {
		m[kv[i]] = kv[i+1]
	}
	return m
}

var commonAssumptions = []string{
	"int is 64-bit (amd64); Go SSA (x/tools v0.29.0) of the current /repo tree is executed, nothing in module go-redis is stubbed",
	"transport contract of the scripted reader: Read returns (k>0,nil) with 1<=k<=len(p) or (0,err); never (0,nil) and never data together with an error",
	"engine trusted base: SSA interpreter + intrinsics listed in coverage.intrinsics_used; append growth follows runtime.growslice without exotic size classes",
	"solver: z3 5.1.0 (z3-new) over SMT-LIB2 bit-vectors; unknown/timeout on any query makes the run inconclusive, never a pass",
}

func init() {
	register(&Prop{
		ID: "C06",
		Jobs: func(rc *RunCtx) []JobSpec {
			tier := rc.Tier
			maxL := 7
			if tier == "thorough" {
				maxL = 10
			}
			var js []JobSpec
			for L := 0; L <= maxL; L++ {
				j := JobSpec{Set: "proto", Fn: "HarnessC06Bytes", Params: p("L", fmt.Sprint(L))}
				if L >= 6 {
					j.Split = 6
				}
				js = append(js, j)
			}
			// near-valid templates with symbolic length fields
			for _, kind := range []string{"bulk", "array", "nested"} {
				for D := 1; D <= 20; D++ {
					if tier != "thorough" && D > 3 && D != 10 && D < 18 {
						continue
					}
					tail := "2"
					if tier == "thorough" {
						tail = "3"
					}
					js = append(js, JobSpec{Set: "proto", Fn: "HarnessC06Template", Params: p("kind", kind, "D", fmt.Sprint(D), "digits", "1", "smallalloc", "4", "tail", tail), Timeout: 20 * time.Minute})
				}
			}
			// complete arrays around allocation boundaries
			for _, n := range []int{0, 1, 2, 255, 256, 257, 1023, 1024, 1025, 2047, 2048, 2049, 4097, 5000} {
				js = append(js, JobSpec{Set: "proto", Fn: "HarnessC06Large", Params: p("n", fmt.Sprint(n))})
			}
			if tier == "thorough" {
				js = append(js, JobSpec{Set: "proto", Fn: "HarnessC06Large", Params: p("max", "1100"), Split: 8, Timeout: 40 * time.Minute})
			}
			return js
		},
		UnwindIsFinding: true,
		RequiredCovers: map[string][]string{
			"HarnessC06Bytes":    {"end", "error", "eos", "value", "array"},
			"HarnessC06Template": {"end", "error"},
			"HarnessC06Large":    {"end"},
		},
		Bounds: func(tier string) map[string]interface{} {
			if tier == "thorough" {
				return map[string]interface{}{"arbitrary_bytes_max_len": 10, "length_field_digits": "1..20 (optional sign + decimal digits, all values)", "payload_after_length": "<=3 bytes", "alloc_cap_bytes": 512<<20 + 2, "unwind": "4*L+24"}
			}
			return map[string]interface{}{"arbitrary_bytes_max_len": 7, "length_field_digits": "1,2,3,10,18,19,20 (optional sign + decimal digits, all values)", "payload_after_length": "<=2 bytes", "alloc_cap_bytes": 512<<20 + 2, "unwind": "4*L+24"}
		},
		Assumptions: append([]string{
			"input delivered whole by a bytes.Buffer (chunking is C02)",
			"an allocation above 512MiB+2 bytes or beyond 2^47 bytes requested with an attacker-chosen size counts as a violation (process abort)",
		}, commonAssumptions...),
		Outside: []string{"inputs longer than the stated byte bound that are not of the template shapes", "transport errors other than EOF"},
	})
}

func init() {
	register(&Prop{
		ID: "C01",
		Jobs: func(rc *RunCtx) []JobSpec {
			tier := rc.Tier
			var js []JobSpec
			tree := func(d, a, pl int, split int) {
				js = append(js, JobSpec{Set: "proto", Fn: "HarnessC01Tree", Params: p("depth", fmt.Sprint(d), "arity", fmt.Sprint(a), "payload", fmt.Sprint(pl)), Split: split})
			}
			tree(1, 2, 2, 0)
			tree(2, 1, 1, 0)
			tree(0, 0, 4, 0)
			if tier == "thorough" {
				tree(2, 2, 2, 4)
				tree(3, 1, 2, 3)
				tree(1, 3, 2, 3)
				tree(1, 2, 4, 3)
			}
			ns := []int{0, 1, 2, 9, 10, 11, 99, 100, 101, 999, 1000, 1001, 9999, 10000, 65535, 65536}
			if tier == "thorough" {
				ns = append(ns, 100000)
			}
			for _, n := range ns {
				js = append(js, JobSpec{Set: "proto", Fn: "HarnessC01Bulk", Params: p("n", fmt.Sprint(n))})
			}
			// long values around the buffer sizes a reader may use (4096, 65536): mixed arrays with line-type
			// elements before and after a long bulk string, every value re-checked after the parser has read on
			bigs := []int{4090, 5000}
			if tier == "thorough" {
				bigs = append(bigs, 100, 4096, 65536, 70000)
			}
			for _, n := range bigs {
				js = append(js, JobSpec{Set: "proto", Fn: "HarnessC02Big", Params: p("n", fmt.Sprint(n))})
			}
			// wide arrays (element count written and read back as a decimal; allocation sizes of the reader)
			wides := []int{0, 9, 10, 11, 100, 1024, 1025}
			if tier == "thorough" {
				wides = append(wides, 999, 1000, 4096, 4097, 10000)
			}
			for _, n := range wides {
				js = append(js, JobSpec{Set: "proto", Fn: "HarnessC01Wide", Params: p("n", fmt.Sprint(n))})
			}
			for _, h := range []string{"HarnessC01Ctors", "HarnessC01Int", "HarnessC01Float"} {
				js = append(js, JobSpec{Set: "redis", Fn: h, Params: p("strlen", map[string]string{"quick": "3", "thorough": "4"}[tier])})
			}
			return js
		},
		RequiredCovers: map[string][]string{
			"HarnessC01Tree":  {"end", "parsed", "array", "null-bulk", "empty-bulk"},
			"HarnessC01Bulk":  {"end"},
			"HarnessC02Big":   {"end"},
			"HarnessC01Wide":  {"end"},
			"HarnessC01Ctors": {"end", "ok", "status", "error", "bulk", "nil", "strings"},
			"HarnessC01Int":   {"end", "negative", "digits19"},
			"HarnessC01Float": {"end"},
		},
		Bounds: func(tier string) map[string]interface{} {
			if tier == "thorough" {
				return map[string]interface{}{"trees": "depth<=2 arity<=2 payload<=2; depth 3 arity 1; arity 3 depth 1; payload<=4 depth 1", "bulk_lengths": "0,1,2,9,10,11,99,100,101,999,1000,1001,9999,10000,65535,65536,100000 (all byte values)", "integer_constructor": "all int64", "constructor_strings": "<=4 bytes", "float_constructor": "fixed witness list (format/parse are strconv's)", "wide_arrays": "arrays of 0, 9, 10, 11, 100, 999, 1000, 1024, 1025, 4096, 4097, 10000 mixed elements (three symbolic), alone and nested", "long_mixed_streams": "status, [error, bulk of n bytes, integer], status, [bulk], integer with n = 100, 4090, 4096, 5000, 65536, 70000 (first/last byte and all line payloads symbolic)"}
			}
			return map[string]interface{}{"wide_arrays": "arrays of 0, 9, 10, 11, 100, 1024, 1025 mixed elements (three symbolic), alone and nested", "long_mixed_streams": "status, [error, bulk of n bytes, integer], status, [bulk], integer with n = 4090, 5000 (first/last byte and all line payloads symbolic)", "trees": "depth<=1 arity<=2 payload<=2; depth 2 arity 1 payload 1; leaves payload<=4", "bulk_lengths": "0,1,2,9,10,11,99,100,101,999,1000,1001,9999,10000,65535,65536 (all byte values)", "integer_constructor": "all int64", "constructor_strings": "<=3 bytes", "float_constructor": "fixed witness list (format/parse are strconv's)"}
		},
		Assumptions: append([]string{
			"line-type payloads exclude CR and LF (the property's quantifier); bulk payload bytes are unconstrained",
			"shortest round-trip float formatting/parsing is strconv's algorithm and outside the claim; NewFloatMessage is checked on a witness list only",
		}, commonAssumptions...),
		Outside: []string{"deeper/wider trees and other payload lengths than listed", "finite float64 values other than the witnesses"},
	})
	register(&Prop{
		ID: "C02",
		Jobs: func(rc *RunCtx) []JobSpec {
			tier := rc.Tier
			var js []JobSpec
			add := func(v, d, a, pl, split int) {
				js = append(js, JobSpec{Set: "proto", Fn: "HarnessC02Chunks", Params: p("values", fmt.Sprint(v), "depth", fmt.Sprint(d), "arity", fmt.Sprint(a), "payload", fmt.Sprint(pl)), Split: split})
			}
			add(2, 1, 1, 2, 3)
			add(1, 1, 2, 2, 0)
			add(1, 0, 0, 5, 0)
			bigs := []int{100, 4090, 70000}
			if tier == "thorough" {
				bigs = append(bigs, 4096, 5000, 65534, 65535, 65536, 131072)
			}
			for _, n := range bigs {
				js = append(js, JobSpec{Set: "proto", Fn: "HarnessC02Big", Params: p("n", fmt.Sprint(n))})
			}
			if tier == "thorough" {
				add(3, 1, 1, 1, 4)
				add(2, 1, 2, 2, 4)
				add(2, 0, 0, 4, 3)
				add(1, 2, 2, 1, 3)
			}
			return js
		},
		RequiredCovers: map[string][]string{"HarnessC02Chunks": {"end", "partial-bulk-read"}, "HarnessC02Big": {"end"}},
		Bounds: func(tier string) map[string]interface{} {
			if tier == "thorough" {
				return map[string]interface{}{"long_streams": "5 values around a bulk string of 100, 4090, 4096, 5000, 65534, 65535, 65536, 70000, 131072 bytes, delivered greedily with one segment boundary at 9 kinds of offsets (value boundaries +-1, inside the array header, inside the bulk body, after the first byte)", "streams": "3 values (depth1 arity1 payload1); 2 values (arity 2 payload 2 / leaves payload 4); 1 value depth 2", "chunking": "every read returns any 1..min(len(p),remaining) bytes (all partitions)"}
			}
			return map[string]interface{}{"long_streams": "5 values around a bulk string of 100, 4090, 70000 bytes, delivered greedily with one segment boundary at 9 kinds of offsets (value boundaries +-1, inside the array header, inside the bulk body, after the first byte)", "streams": "2 values (depth<=1 arity<=1 payload<=2); 1 value (arity<=2 payload<=2); 1 leaf payload<=5", "chunking": "every read returns any 1..min(len(p),remaining) bytes (all partitions)"}
		},
		Assumptions: append([]string{"a parser may read ahead of the value it returns (buffering); what is required is that every value is returned intact, in order, only after its last byte arrived, stays intact while the parser reads on, and that the stream is consumed exactly at its end"}, commonAssumptions...),
		Outside:     []string{"longer streams, reads that return an error together with data"},
	})
}
