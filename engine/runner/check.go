package runner

import (
	"encoding/json"
	"flag"
	"fmt"
	"os"
	"path/filepath"
	"runtime"
	"sort"
	"strconv"
	"strings"
	"sync"
	"time"

	"verif/engine/sym"
)

// JobSpec describes one exploration job of a property.
type JobSpec struct {
	Set       string
	Fn        string
	Params    map[string]string
	Unwind    int
	MaxPaths  int
	Split     int
	Timeout   time.Duration
	Overrides map[string]string
	prefix    []int
	core      bool // part of the quick tier: always run to completion, never subject to the thorough time budget
}

func (j JobSpec) label() string {
	var ks []string
	for k, v := range j.Params {
		ks = append(ks, k+"="+v)
	}
	sort.Strings(ks)
	return j.Fn + "{" + strings.Join(ks, ",") + "}"
}

// Prop is the check definition of one property.
type Prop struct {
	ID             string
	Jobs           func(rc *RunCtx) []JobSpec
	Assumptions    []string
	RequiredCovers map[string][]string // harness fn -> labels that must be reached at least once
	Bounds         func(tier string) map[string]interface{}
	Outside        []string
	// Extra runs checks that do not go through the SSA engine (returns extra coverage info)
	Extra func(rc *RunCtx) error
	// EngineOnly lists harnesses whose environment is stubbed inside the engine (stub network, stubbed TLS
	// handshake, engine-scheduled goroutines): their counterexamples cannot be forced on the native build and
	// are reported after deterministic re-execution in the engine only.
	EngineOnly map[string]bool
	// UnwindIsFinding: an UNWIND outcome is a termination counterexample candidate (replayed under a wall-clock limit)
	UnwindIsFinding bool
}

var props = map[string]*Prop{}

func register(p *Prop) { props[p.ID] = p }

// KnownFinding is one line of /verif/known_findings.jsonl.
type KnownFinding struct {
	Property string            `json:"property"`
	Status   string            `json:"status"` // "known" (default) | "fixed"
	Kind     string            `json:"kind,omitempty"`
	ID       string            `json:"id,omitempty"`
	Site     string            `json:"site,omitempty"`
	Harness  string            `json:"harness,omitempty"`
	Tags     map[string]string `json:"tags,omitempty"`
	What     string            `json:"what"`
	Commit   string            `json:"commit,omitempty"`
}

func loadKnown(verif string) []KnownFinding {
	b, err := os.ReadFile(filepath.Join(verif, "known_findings.txt"))
	if err != nil {
		return nil
	}
	var out []KnownFinding
	for _, line := range strings.Split(string(b), "\n") {
		line = strings.TrimSpace(line)
		if !strings.HasPrefix(line, "{") {
			continue // comments and "fixed: property=<id> <commit> <what failed>" records suppress nothing
		}
		var k KnownFinding
		if json.Unmarshal([]byte(line), &k) == nil {
			out = append(out, k)
		}
	}
	return out
}

func (k *KnownFinding) matches(prop string, f *sym.Finding) bool {
	if k.Status == "fixed" {
		return false
	}
	if k.Property != prop {
		return false
	}
	if k.Kind != "" && k.Kind != f.Kind {
		return false
	}
	if k.ID != "" && k.ID != f.ID {
		return false
	}
	if k.Site != "" && !strings.Contains(f.Site, k.Site) {
		return false
	}
	if k.Harness != "" && k.Harness != f.Harness {
		return false
	}
	for tk, tv := range k.Tags {
		if f.Tags[tk] != tv && f.Params[tk] != tv {
			return false
		}
	}
	return true
}

// RunCtx carries the state of one check run.
type RunCtx struct {
	Prop      *Prop
	Tier      string
	Seed      int64
	Verif     string
	Repo      string
	St        *Staged
	Ld        *sym.Loaded
	Workers   int
	Results   []*sym.JobResult
	Extra     map[string]interface{}
	Violation []string
	Known     []string
	Inconcl   []string
	Validated int
	Samples   []interface{}
	jobs      []JobSpec
	mu        sync.Mutex
	// thorough tier: wall-clock budget for the jobs beyond the quick tier's
	Deadline  time.Time
	BudgetMin int
	Skipped   []string // jobs not completed within the budget (not run, or stopped part-way)
}

func (rc *RunCtx) inconclusive(format string, a ...interface{}) {
	rc.mu.Lock()
	defer rc.mu.Unlock()
	s := fmt.Sprintf(format, a...)
	for _, x := range rc.Inconcl {
		if x == s {
			return
		}
	}
	rc.Inconcl = append(rc.Inconcl, s)
}

func CmdCheck(args []string) int {
	fs := flag.NewFlagSet("check", flag.ExitOnError)
	propID := fs.String("prop", "", "property id")
	tier := fs.String("tier", "", "quick|thorough")
	repo := fs.String("repo", "/repo", "")
	verif := fs.String("verif", "/verif", "")
	workers := fs.Int("workers", 0, "")
	solver := fs.String("solver", "z3-new", "")
	only := fs.String("only", "", "run only jobs whose label contains this")
	fs.Parse(args)
	if *tier == "" {
		*tier = os.Getenv("VERIF_TIER")
	}
	if *tier == "" {
		*tier = "quick"
	}
	seed, _ := strconv.ParseInt(os.Getenv("VERIF_SEED"), 10, 64)
	p := props[*propID]
	if p == nil {
		fmt.Fprintf(os.Stderr, "unknown property %q\n", *propID)
		return 2
	}
	if *workers == 0 {
		*workers = runtime.NumCPU()
		if *workers > 16 {
			*workers = 16
		}
	}
	t0 := time.Now()
	rc := &RunCtx{Prop: p, Tier: *tier, Seed: seed, Verif: *verif, Repo: *repo, Workers: *workers, Extra: map[string]interface{}{}}
	st, err := Stage(*verif, *repo)
	if err != nil {
		fmt.Fprintln(os.Stderr, "stage:", err)
		return 2
	}
	defer st.Cleanup()
	rc.St = st
	ld, err := st.Load()
	if err != nil {
		fmt.Fprintln(os.Stderr, "load:", err)
		writeEvidence(rc, t0, []string{"load failed: " + err.Error()})
		fmt.Printf("INCONCLUSIVE property=%s: /repo does not load: %v\n", p.ID, firstLine(err.Error()))
		return 2
	}
	rc.Ld = ld
	var jobs []JobSpec
	if p.Jobs != nil {
		jobs = p.Jobs(rc)
		if rc.Tier == "thorough" {
			// thorough = the quick tier's jobs (always completed) followed by the deeper ones, which run under a
			// wall-clock budget (VERIF_THOROUGH_BUDGET_MIN, default 30): what was not completed is listed in the evidence
			rc.Tier = "quick"
			core := p.Jobs(rc)
			rc.Tier = "thorough"
			seen := map[string]bool{}
			var all []JobSpec
			for _, j := range core {
				j.core = true
				seen[j.Set+"/"+j.label()] = true
				all = append(all, j)
			}
			for _, j := range jobs {
				if !seen[j.Set+"/"+j.label()] {
					all = append(all, j)
				}
			}
			jobs = all
			rc.BudgetMin = 30
			if v, err := strconv.Atoi(os.Getenv("VERIF_THOROUGH_BUDGET_MIN")); err == nil && v > 0 {
				rc.BudgetMin = v
			}
		}
	}
	rc.jobs = jobs
	if *only != "" {
		var f []JobSpec
		for _, j := range jobs {
			if strings.Contains(j.label(), *only) {
				f = append(f, j)
			}
		}
		jobs = f
	}
	if len(jobs) > 0 {
		rc.runJobs(jobs, *solver)
	}
	if p.Extra != nil {
		if err := p.Extra(rc); err != nil {
			rc.inconclusive("extra check failed: %v", err)
		}
	}
	rc.processFindings()
	rc.validateTraces()
	rc.checkCovers()
	writeEvidence(rc, t0, nil)
	for _, k := range rc.Known {
		fmt.Println(k)
	}
	for i, v := range rc.Violation {
		if i == 30 {
			fmt.Printf("... and %d more violations (see %s)\n", len(rc.Violation)-30, filepath.Join(rc.Verif, "replays", p.ID))
			break
		}
		fmt.Println(v)
	}
	for i, s := range rc.Inconcl {
		if i == 30 {
			fmt.Printf("... and %d more inconclusive items\n", len(rc.Inconcl)-30)
			break
		}
		fmt.Printf("INCONCLUSIVE property=%s: %s\n", p.ID, s)
	}
	if len(rc.Skipped) > 0 {
		fmt.Printf("NOTE property=%s thorough budget of %d min reached: %d jobs beyond the quick tier's were not completed (listed in the evidence under coverage.thorough_budget)\n", p.ID, rc.BudgetMin, len(rc.Skipped))
	}
	nPaths, nQ := 0, 0
	for _, r := range rc.Results {
		nPaths += r.Paths
		nQ += r.Solver.Queries
	}
	fmt.Printf("property=%s tier=%s jobs=%d paths=%d solver_queries=%d validated_traces=%d violations=%d known=%d inconclusive=%d wall=%.1fs\n",
		p.ID, *tier, len(rc.Results), nPaths, nQ, rc.Validated, len(rc.Violation), len(rc.Known), len(rc.Inconcl), time.Since(t0).Seconds())
	if len(rc.Violation) > 0 {
		return 1
	}
	if len(rc.Inconcl) > 0 {
		return 2
	}
	return 0
}

func firstLine(s string) string {
	if i := strings.IndexByte(s, '\n'); i >= 0 {
		return s[:i]
	}
	return s
}

// jobTimeout caps a job's own time limit by what is left of the thorough budget (jobs of the quick tier are exempt).
func (rc *RunCtx) jobTimeout(j JobSpec, d time.Duration) time.Duration {
	if j.core || rc.Deadline.IsZero() {
		return d
	}
	left := time.Until(rc.Deadline)
	if left < 5*time.Second {
		left = 5 * time.Second
	}
	if left < d {
		return left
	}
	return d
}

func (rc *RunCtx) runOne(j JobSpec, solver string, tier string) *sym.JobResult {
	cfg := sym.JobConfig{Harness: j.Fn, Pkg: PkgPath(j.Set), Params: j.Params, Unwind: j.Unwind, MaxPaths: j.MaxPaths,
		Timeout: j.Timeout, Overrides: j.Overrides, Prefix: j.prefix, TraceEvery: 97, MaxTraces: 6}
	if tier == "thorough" {
		cfg.TraceEvery, cfg.MaxTraces = 41, 24
	}
	if cfg.Timeout == 0 {
		cfg.Timeout = 10 * time.Minute
		if tier == "thorough" && !j.core {
			cfg.Timeout = 40 * time.Minute
		}
	}
	cfg.Timeout = rc.jobTimeout(j, cfg.Timeout)
	m, err := sym.NewMachine(rc.Ld, cfg, solver)
	if err != nil {
		rc.inconclusive("solver start failed: %v", err)
		return nil
	}
	defer m.Close()
	return m.Run()
}

func (rc *RunCtx) runJobs(jobs []JobSpec, solver string) {
	type item struct {
		j        JobSpec
		frontier bool
	}
	var mu sync.Mutex
	var queue []item
	for _, j := range jobs {
		queue = append(queue, item{j, j.Split > 0})
	}
	if rc.BudgetMin > 0 {
		rc.Deadline = time.Now().Add(time.Duration(rc.BudgetMin) * time.Minute)
	}
	overBudget := func(j JobSpec) bool {
		return !j.core && !rc.Deadline.IsZero() && time.Now().After(rc.Deadline)
	}
	skip := func(j JobSpec, how string) {
		rc.mu.Lock()
		rc.Skipped = append(rc.Skipped, j.label()+" ("+how+")")
		rc.mu.Unlock()
	}
	// largest first is unknown; keep order
	var wg sync.WaitGroup
	pending := len(queue)
	cond := sync.NewCond(&mu)
	worker := func() {
		defer wg.Done()
		for {
			mu.Lock()
			for len(queue) == 0 && pending > 0 {
				cond.Wait()
			}
			if pending == 0 && len(queue) == 0 {
				mu.Unlock()
				cond.Broadcast()
				return
			}
			it := queue[0]
			queue = queue[1:]
			mu.Unlock()
			if overBudget(it.j) {
				skip(it.j, "not started")
				mu.Lock()
				pending--
				mu.Unlock()
				cond.Broadcast()
				continue
			}
			var res *sym.JobResult
			func() {
				defer func() {
					if r := recover(); r != nil {
						rc.inconclusive("engine crash in job %s: %v", it.j.label(), r)
					}
				}()
				if it.frontier {
					cfg := sym.JobConfig{Harness: it.j.Fn, Pkg: PkgPath(it.j.Set), Params: it.j.Params, Unwind: it.j.Unwind,
						Overrides: it.j.Overrides, SplitDepth: it.j.Split, Timeout: rc.jobTimeout(it.j, 10*time.Minute)}
					m, err := sym.NewMachine(rc.Ld, cfg, solver)
					if err != nil {
						rc.inconclusive("solver start failed: %v", err)
						return
					}
					res = m.Run()
					m.Close()
				} else {
					res = rc.runOne(it.j, solver, rc.Tier)
				}
			}()
			if res != nil && (res.Wall > 20*time.Second || os.Getenv("SYMGO_VERBOSE") != "") {
				fmt.Fprintf(os.Stderr, "job %s frontier=%v paths=%d wall=%.1fs ends=%v\n", it.j.label(), it.frontier, res.Paths, res.Wall.Seconds(), res.PathsByEnd)
			}
			if res != nil && !it.j.core && rc.BudgetMin > 0 {
				// a deeper job of the thorough tier stopped by a time limit (its own or what was left of the budget):
				// what it explored counts, the rest is listed as not completed
				var keep []string
				cut := false
				for _, x := range res.Inconclusive {
					if strings.Contains(x, "time budget exhausted") {
						cut = true
						continue
					}
					keep = append(keep, x)
				}
				if cut {
					res.Inconclusive = keep
					skip(it.j, fmt.Sprintf("stopped after %d paths", res.Paths))
				}
			}
			mu.Lock()
			if res != nil {
				rc.Results = append(rc.Results, res)
				if it.frontier {
					for _, pre := range res.Prefixes {
						sub := it.j
						sub.Split = 0
						sub.prefix = pre
						queue = append(queue, item{sub, false})
						pending++
					}
				}
			}
			pending--
			mu.Unlock()
			cond.Broadcast()
		}
	}
	for i := 0; i < rc.Workers; i++ {
		wg.Add(1)
		go worker()
	}
	wg.Wait()
	for _, r := range rc.Results {
		for _, s := range r.Inconclusive {
			if rc.Prop.UnwindIsFinding && strings.HasPrefix(s, "unwinding bound reached") {
				continue
			}
			rc.inconclusive("%s: %s", r.Harness, s)
		}
	}
}

func findingKey(f *sym.Finding) string {
	var ts []string
	for k, v := range f.Tags {
		ts = append(ts, k+"="+v)
	}
	sort.Strings(ts)
	return f.Harness + "|" + f.Kind + "|" + f.ID + "|" + f.Site + "|" + strings.Join(ts, ",")
}

func setOfHarness(rc *RunCtx, harness string) string {
	for _, j := range rc.jobs {
		if j.Fn == harness {
			return j.Set
		}
	}
	return "redis"
}

// processFindings replays every distinct finding natively and classifies it.
func (rc *RunCtx) processFindings() {
	known := loadKnown(rc.Verif)
	seen := map[string]bool{}
	var all []*sym.Finding
	// exactly modelled findings first: a finding on a path through an uninterpreted abstraction is
	// kept only when no exact one has the same signature
	for _, abstract := range []bool{false, true} {
		for _, r := range rc.Results {
			for _, f := range r.Findings {
				if f.Abstract != abstract {
					continue
				}
				k := findingKey(f)
				if seen[k] {
					continue
				}
				seen[k] = true
				all = append(all, f)
			}
		}
	}
	sort.Slice(all, func(i, j int) bool { return findingKey(all[i]) < findingKey(all[j]) })
	replayDir := filepath.Join(rc.Verif, "replays", rc.Prop.ID)
	if d := os.Getenv("VERIF_EVIDENCE_DIR"); d != "" {
		// evaluation of a scratch tree: private replay directory (several evaluations may run at once)
		replayDir = filepath.Join(d, "replays", fmt.Sprintf("%s-%d", rc.Prop.ID, os.Getpid()))
	}
	os.RemoveAll(replayDir)
	// group per (kind,id,site): replay at most a few representatives per group but classify all
	for _, f := range all {
		if f.Kind == "unwind" && !rc.Prop.UnwindIsFinding {
			continue
		}
		set := setOfHarness(rc, f.Harness)
		path, err := rc.St.WriteReplaySet(replayDir, rc.Prop.ID, set, f)
		if err != nil {
			rc.inconclusive("cannot write replay: %v", err)
			continue
		}
		engineOnly := rc.Prop.EngineOnly[f.Harness]
		confirmed, detail := false, ""
		if !engineOnly {
			confirmed, detail = rc.confirm(set, f, path)
		}
		what := fmt.Sprintf("%s %s at %s tags=%v input=%s", f.Kind, f.ID, shortSite(f.Site), sortedTagList(f.Tags), RenderVector(f.Replay))
		if !confirmed && (engineOnly || f.Sched) && f.Kind != "unwind" && f.Kind != "race" {
			// schedule / stub dependent: the path is deterministic in the engine (decision list recorded); native replay cannot force it
			what += " (schedule/stub dependent: reproduced by deterministic re-execution in the engine only)"
			confirmed = true
			rc.Validated--
		}
		if !confirmed && f.Kind == "race" {
			// a candidate of the engine's detector that the native race detector did not report: listed, not an alarm
			rc.mu.Lock()
			l, _ := rc.Extra["unconfirmed_race_candidates"].([]string)
			rc.Extra["unconfirmed_race_candidates"] = append(l, what)
			rc.mu.Unlock()
			continue
		}
		if !confirmed && f.Abstract {
			// the path went through an uninterpreted function (e.g. regexp.Compile of symbolic text): the
			// solver's choice for it need not be what the real function returns, so a native miss decides nothing
			rc.inconclusive("ABSTRACT-PATH: %s did not reproduce natively (the path uses an uninterpreted function; %s) replay=%s", what, detail, path)
			continue
		}
		if !confirmed {
			rc.inconclusive("ENGINE-MISMATCH: %s did not reproduce natively (%s) replay=%s", what, detail, path)
			continue
		}
		rc.Validated++
		matched := false
		for i := range known {
			if known[i].matches(rc.Prop.ID, f) {
				rc.Known = append(rc.Known, fmt.Sprintf("KNOWN-FINDING: property=%s %s [%s]", rc.Prop.ID, known[i].What, what))
				matched = true
				break
			}
		}
		if !matched {
			rc.Violation = append(rc.Violation, fmt.Sprintf("VIOLATION property=%s replay=%s %s", rc.Prop.ID, path, what))
		}
		if len(rc.Samples) < 12 {
			rc.Samples = append(rc.Samples, map[string]interface{}{"finding": what, "replay": path})
		}
	}
}

func sortedTagList(t map[string]string) []string {
	var out []string
	for k, v := range t {
		out = append(out, k+"="+v)
	}
	sort.Strings(out)
	return out
}

func shortSite(s string) string {
	return strings.ReplaceAll(s, "github.com/cybergarage/go-redis/", "")
}

func (rc *RunCtx) confirm(set string, f *sym.Finding, path string) (bool, string) {
	limit := 20 * time.Second
	if f.Kind == "unwind" || f.Kind == "deadlock" {
		limit = 4 * time.Second
	}
	if f.Kind == "race" {
		// the native race detector needs the two accesses to actually overlap within its window: repeat a few times
		var last *ReplayOutcome
		for i := 0; i < 12; i++ {
			o, err := rc.St.ReplayFileEnv(set, path, limit, true, "VSYM_NETNS=1")
			if err != nil {
				return false, err.Error()
			}
			last = o
			if o.Race {
				return true, ""
			}
		}
		return false, last.Summary()
	}
	o, err := rc.St.ReplayFile(set, path, limit, false)
	if err != nil {
		return false, err.Error()
	}
	switch f.Kind {
	case "assert":
		for _, id := range o.Failed {
			if id == f.ID {
				return true, ""
			}
		}
	case "panic":
		if o.Panic != "" {
			return true, ""
		}
	case "unwind", "deadlock":
		if o.TimedOut {
			return true, ""
		}
	case "alloc":
		if o.Panic != "" || strings.Contains(o.Output, "out of memory") || strings.Contains(o.Output, "cannot allocate") || o.TimedOut {
			return true, ""
		}
	case "race":
		if o.Race {
			return true, ""
		}
	}
	return false, o.Summary()
}

// validateTraces cross-validates sampled engine paths against the native build.
func (rc *RunCtx) validateTraces() {
	n := 0
	for _, r := range rc.Results {
		for _, tr := range r.Traces {
			n++
			set := setOfHarness(rc, tr.Harness)
			f := &sym.Finding{Harness: tr.Harness, Params: tr.Params, Replay: tr.Vector, Kind: "trace", ID: "trace"}
			path, err := rc.St.WriteReplay(filepath.Join(rc.St.Dir, "traces"), rc.Prop.ID, f)
			if err != nil {
				continue
			}
			o, err := rc.St.ReplayFile(set, path, 20*time.Second, false)
			if err != nil {
				rc.inconclusive("trace replay failed: %v", err)
				return
			}
			var nativeCov string
			for _, line := range strings.Split(o.Output, "\n") {
				if strings.HasPrefix(line, "VSYM-COVERS ") {
					nativeCov = strings.TrimSpace(strings.TrimPrefix(line, "VSYM-COVERS "))
				}
			}
			want := strings.Join(tr.Covers, ",")
			okEnd := (tr.End == "panic") == (o.Panic != "")
			if o.Diverged || o.AssumeFalse || len(o.Failed) > 0 || !okEnd || (tr.End == "done" && nativeCov != want) {
				keep := filepath.Join(rc.Verif, "replays", rc.Prop.ID)
				os.MkdirAll(keep, 0o755)
				dst := filepath.Join(keep, "mismatch-"+filepath.Base(path))
				b, _ := os.ReadFile(path)
				os.WriteFile(dst, b, 0o644)
				rc.inconclusive("ENGINE-MISMATCH on sampled trace of %s: engine covers=[%s] end=%s, native covers=[%s] %s replay=%s", tr.Harness, want, tr.End, nativeCov, o.Summary(), dst)
				continue
			}
			rc.Validated++
		}
	}
}

func (rc *RunCtx) checkCovers() {
	total := map[string]map[string]int{}
	for _, r := range rc.Results {
		if total[r.Harness] == nil {
			total[r.Harness] = map[string]int{}
		}
		for k, v := range r.Covers {
			total[r.Harness][k] += v
		}
	}
	for h, labels := range rc.Prop.RequiredCovers {
		if total[h] == nil {
			continue // harness not part of this run (filtered)
		}
		for _, l := range labels {
			if total[h][l] == 0 {
				rc.inconclusive("vacuity guard: label %q of %s was never reached", l, h)
			}
		}
	}
	rc.Extra["covers"] = total
}

func writeEvidence(rc *RunCtx, t0 time.Time, fatal []string) {
	p := rc.Prop
	states, transitions, queries, aq, aunsat, asat, nontriv, fast := 0, 0, 0, 0, 0, 0, 0, 0
	var solverTime time.Duration
	var maxQ time.Duration
	funcs := map[string]bool{}
	intr := map[string]bool{}
	ends := map[string]int{}
	cuts := map[string]int{}
	var samples []interface{}
	unknown := 0
	for _, r := range rc.Results {
		states += r.Paths
		transitions += r.Decisions
		queries += r.Solver.Queries
		unknown += r.Solver.Unknown
		solverTime += r.Solver.Time
		if r.Solver.MaxQuery > maxQ {
			maxQ = r.Solver.MaxQuery
		}
		aq += r.AssertQueries
		aunsat += r.AssertUnsat
		asat += r.AssertSat
		nontriv += r.NontrivPaths
		fast += r.FastDecided
		for f := range r.Funcs {
			funcs[f] = true
		}
		for f := range r.Intrinsics {
			intr[f] = true
		}
		for k, v := range r.PathsByEnd {
			ends[k] += v
		}
		for k, v := range r.Cuts {
			cuts[k] += v
		}
		if len(samples) < 10 && len(r.Samples) > 0 {
			samples = append(samples, map[string]interface{}{"harness": r.Harness, "params": r.Params, "path_witness": r.Samples[0]})
		}
	}
	if v, ok := rc.Extra["states_override"].(int); ok {
		states += v
		transitions += v
		delete(rc.Extra, "states_override")
	}
	samples = append(samples, rc.Samples...)
	if len(samples) == 0 {
		samples = append(samples, "no path sample recorded")
	}
	cov := map[string]interface{}{
		"states":                        max1(states),
		"transitions":                   max1(transitions),
		"traces_validated_against_impl": rc.Validated,
		"samples":                       samples,
		"evaluations":                   max1(states),
		"distinct_nontrivial":           nontriv,
		"rule":                          "one evaluation = one explored symbolic path (an equivalence class of concrete runs); non-trivial = the path carries a symbolic path condition or an assertion on it needed a solver query",
		"exhaustive":                    len(rc.Inconcl) == 0 && len(fatal) == 0,
		"jobs":                          len(rc.Results),
		"paths_by_outcome":              ends,
		"path_cuts_outside_claim":       cuts,
		"queries": map[string]interface{}{
			"solver_checks": queries, "solver_unknown": unknown, "assertion_checks": aq, "assertion_unsat": aunsat, "assertion_sat": asat,
			"decided_by_exhaustive_byte_domain": fast,
		},
		"solver_time_s":     solverTime.Seconds(),
		"max_query_s":       maxQ.Seconds(),
		"functions_encoded": sortedKeys(funcs),
		"intrinsics_used":   sortedKeys(intr),
		"inconclusive":      append(append([]string{}, rc.Inconcl...), fatal...),
		"known_findings":    rc.Known,
	}
	if p.Bounds != nil {
		cov["bounds"] = p.Bounds(rc.Tier)
	}
	if len(p.Outside) > 0 {
		cov["outside_claim"] = p.Outside
	}
	for k, v := range rc.Extra {
		cov[k] = v
	}
	if rc.BudgetMin > 0 {
		tb := map[string]interface{}{"minutes": rc.BudgetMin, "applies_to": "jobs beyond the quick tier's (those always run to completion)", "jobs_not_completed": len(rc.Skipped)}
		if len(rc.Skipped) > 0 {
			sk := append([]string{}, rc.Skipped...)
			sort.Strings(sk)
			if len(sk) > 60 {
				sk = append(sk[:60], fmt.Sprintf("... and %d more", len(rc.Skipped)-60))
			}
			tb["not_completed"] = sk
			tb["note"] = "the claim of this run covers the jobs that completed and the paths explored by the stopped ones; the listed jobs are outside it"
		}
		cov["thorough_budget"] = tb
	}
	ev := map[string]interface{}{
		"property_id": p.ID,
		"tier":        rc.Tier,
		"seed":        rc.Seed,
		"level":       "model_checking",
		"coverage":    cov,
		"assumptions": p.Assumptions,
		"wall_s":      time.Since(t0).Seconds(),
		"violations":  len(rc.Violation),
	}
	b, _ := json.MarshalIndent(ev, "", " ")
	dir := filepath.Join(rc.Verif, "evidence")
	if d := os.Getenv("VERIF_EVIDENCE_DIR"); d != "" {
		// runs against a scratch copy of the repository (seeded changes) keep their evidence out of /verif/evidence
		dir = d
	}
	os.MkdirAll(dir, 0o755)
	os.WriteFile(filepath.Join(dir, p.ID+".json"), b, 0o644)
}

func max1(n int) int {
	if n < 1 {
		return 1
	}
	return n
}

func sortedKeys(m map[string]bool) []string {
	var out []string
	for k := range m {
		out = append(out, k)
	}
	sort.Strings(out)
	return out
}
