package runner

func CmdCheck(args []string) int { return 2 }
