package runner

import (
	"fmt"
	"go/constant"
	"go/types"
	"sort"
	"strings"
	"time"

	"golang.org/x/tools/go/ssa"

	"verif/engine/sym"
)

// CommandNames reads the registered command names from the SSA of the current tree: every call
// of (*Server).RegisterExexutor with a constant name inside package redis.
func CommandNames(ld *sym.Loaded) []string {
	pkg := ld.PkgByPath[modulePath+"/redis"]
	seen := map[string]bool{}
	var visit func(fn *ssa.Function)
	done := map[*ssa.Function]bool{}
	visit = func(fn *ssa.Function) {
		if fn == nil || done[fn] {
			return
		}
		done[fn] = true
		for _, b := range fn.Blocks {
			for _, ins := range b.Instrs {
				call, ok := ins.(*ssa.Call)
				if !ok {
					continue
				}
				callee := call.Call.StaticCallee()
				if callee == nil || !strings.HasSuffix(callee.String(), ".RegisterExexutor") {
					continue
				}
				if len(call.Call.Args) >= 2 {
					if c, ok := call.Call.Args[1].(*ssa.Const); ok && c.Value != nil && c.Value.Kind() == constant.String {
						seen[constant.StringVal(c.Value)] = true
					}
				}
			}
		}
		for _, af := range fn.AnonFuncs {
			visit(af)
		}
	}
	for _, m := range pkg.Members {
		if fn, ok := m.(*ssa.Function); ok {
			if pos := fn.Pos(); pos.IsValid() && strings.Contains(ld.Prog.Fset.Position(pos).Filename, "zz_vsym_") {
				continue
			}
			visit(fn)
		}
	}
	if t, ok := pkg.Members["Server"].(*ssa.Type); ok {
		for _, recv := range []bool{true} {
			_ = recv
			ms := ld.Prog.MethodSets.MethodSet(t.Type())
			_ = ms
		}
	}
	// methods
	for fn := range allFuncs(ld, pkg) {
		visit(fn)
	}
	var out []string
	for k := range seen {
		out = append(out, k)
	}
	sort.Strings(out)
	return out
}

func allFuncs(ld *sym.Loaded, pkg *ssa.Package) map[*ssa.Function]bool {
	out := map[*ssa.Function]bool{}
	for _, m := range pkg.Members {
		if t, ok := m.(*ssa.Type); ok {
			for _, typ := range []interface{}{t.Type()} {
				_ = typ
			}
			mset := ld.Prog.MethodSets.MethodSet(t.Type())
			for i := 0; i < mset.Len(); i++ {
				if fn := ld.Prog.MethodValue(mset.At(i)); fn != nil && fn.Pkg == pkg {
					out[fn] = true
				}
			}
			pt := ptrTo(t)
			mset = ld.Prog.MethodSets.MethodSet(pt)
			for i := 0; i < mset.Len(); i++ {
				if fn := ld.Prog.MethodValue(mset.At(i)); fn != nil && fn.Pkg == pkg {
					if pos := fn.Pos(); pos.IsValid() && strings.Contains(ld.Prog.Fset.Position(pos).Filename, "zz_vsym_") {
						continue
					}
					out[fn] = true
				}
			}
		}
	}
	return out
}

func ptrTo(t *ssa.Type) types.Type { return types.NewPointer(t.Type()) }

var connLoopAssumptions = []string{
	"the connection is the harness's scripted net.Conn (vconn) driven synchronously through the real Server.receive; real sockets and the kernel are outside the claim",
	"the command handler is a recording double that does not panic and does not retain argument slices",
	"command names and option keywords are ASCII (strings.ToUpper on non-ASCII bytes is cut and reported under path_cuts_outside_claim)",
}

func init() {
	register(&Prop{
		ID: "C03",
		Jobs: func(rc *RunCtx) []JobSpec {
			var js []JobSpec
			names := CommandNames(rc.Ld)
			rc.Extra["commands"] = names
			for _, c := range names {
				if rc.Tier == "thorough" {
					js = append(js, JobSpec{Set: "redis", Fn: "HarnessC03Pipeline", Params: p("cmd", c, "maxargs", "3", "maxlen", "2", "kw", "1", "unwind", "256"), Split: 3})
					js = append(js, JobSpec{Set: "redis", Fn: "HarnessC03Pipeline", Params: p("cmd", c, "maxargs", "2", "maxlen", "2", "shape", "quit", "chunked", "1", "unwind", "256"), Split: 3})
					js = append(js, JobSpec{Set: "redis", Fn: "HarnessC03Pipeline", Params: p("cmd", c, "maxargs", "0", "shape", "quit", "chunked", "2", "unwind", "256"), Split: 4})
				} else {
					js = append(js, JobSpec{Set: "redis", Fn: "HarnessC03Pipeline", Params: p("cmd", c, "maxargs", "3", "maxlen", "2", "unwind", "256")})
					js = append(js, JobSpec{Set: "redis", Fn: "HarnessC03Pipeline", Params: p("cmd", c, "maxargs", "1", "maxlen", "1", "shape", "quit", "chunked", "1", "unwind", "256")})
				}
			}
			// state left behind by one request must not stall the next: CONFIG SET twice, then again (keywords reachable)
			js = append(js, JobSpec{Set: "redis", Fn: "HarnessC03Stateful", Params: p("requests", map[string]string{"quick": "3", "thorough": "4"}[rc.Tier]), Split: 3})
			for _, c := range []string{"SELECT", "AUTH", "SET", "ZADD"} {
				js = append(js, JobSpec{Set: "redis", Fn: "HarnessC03Pipeline", Params: p("cmd", c, "maxargs", "2", "maxlen", "1", "shape", "repeat", "unwind", "256"), Split: 3})
			}
			// lower-case and unknown command names
			js = append(js, JobSpec{Set: "redis", Fn: "HarnessC03Pipeline", Params: p("cmd", "nosuchcmd", "maxargs", "2", "maxlen", "1", "unwind", "256")})
			// SCAN MATCH with every pattern of up to 3 (thorough 4) arbitrary bytes (pattern compilation must not fail the connection)
			js = append(js, JobSpec{Set: "redis", Fn: "HarnessC03Pipeline", Params: p("cmd", "SCAN", "fixed", "0,MATCH", "maxargs", "1", "maxlen", map[string]string{"quick": "3", "thorough": "4"}[rc.Tier], "unwind", "256"), Split: 3})
			js = append(js, JobSpec{Set: "redis", Fn: "HarnessC03Pipeline", Params: p("cmd", "zadd", "maxargs", "3", "maxlen", "2", "unwind", "256")})
			return js
		},
		UnwindIsFinding: true,
		RequiredCovers:  map[string][]string{"HarnessC03Pipeline": {"end", "quit", "ping-answered", "handler-called", "repeat"}, "HarnessC03Stateful": {"end"}},
		Bounds: func(tier string) map[string]interface{} {
			if tier == "thorough" {
				return map[string]interface{}{"pipeline": "[cmd args] PING and [cmd args] QUIT PING", "commands": "every registered executor (read from the SSA of the current tree)", "args": "<=3 arguments, each any byte string of length 0..2 or a long option keyword", "handler_results": "status, integer, bulk, null, array, empty array, error", "chunking": "quit pipelines: every two-segment split; bare command + QUIT + PING: every partition into reads", "unwind": 256}
			}
			return map[string]interface{}{"pipeline": "[cmd args] PING and [cmd args] QUIT PING", "commands": "every registered executor (read from the SSA of the current tree)", "args": "<=3 arguments, each any byte string of length 0..2", "handler_results": "status, integer, bulk, null, array, empty array, error", "chunking": "quit pipelines: every two-segment split of the stream", "unwind": 256}
		},
		Assumptions: append(append([]string{
			"liveness is judged at the moment the server calls Read on the transport for bytes beyond a request boundary",
			"a loop that exceeds the unwinding bound is a termination counterexample candidate and is replayed natively under a 4 s wall-clock limit",
		}, connLoopAssumptions...), commonAssumptions...),
		Outside: []string{"arguments longer than 2 bytes other than the keyword list", "pipelines longer than 3 requests"},
	})
}

func init() {
	register(&Prop{
		ID: "C04",
		Jobs: func(rc *RunCtx) []JobSpec {
			var js []JobSpec
			names := CommandNames(rc.Ld)
			rc.Extra["commands"] = names
			ma, ml := "2", "2"
			if rc.Tier == "thorough" {
				ma, ml = "3", "2"
			}
			for _, c := range names {
				js = append(js, JobSpec{Set: "redis", Fn: "HarnessC04Reply", Params: p("cmd", c, "maxargs", ma, "maxlen", ml), Split: 3})
			}
			js = append(js, JobSpec{Set: "redis", Fn: "HarnessC04Reply", Params: p("cmd", "?", "namelen", "4", "maxargs", "1", "maxlen", ml), Split: 3})
			js = append(js, JobSpec{Set: "redis", Fn: "HarnessC04Raw", Params: p()})
			js = append(js, JobSpec{Set: "server", Fn: "HarnessC04Store", Params: p("maxlen", ml)})
			return js
		},
		RequiredCovers: map[string][]string{"HarnessC04Reply": {"end", "error-reply", "quit"}, "HarnessC04Raw": {"end", "both-answered"}, "HarnessC04Store": {"end", "get", "hget"}},
		Bounds: func(tier string) map[string]interface{} {
			n := 2
			if tier == "thorough" {
				n = 3
			}
			return map[string]interface{}{"request": "[name args...] PING; every registered command and arbitrary 0..4-byte names", "args": n, "arg_bytes": "0..2 bytes, all 256 values (CR, LF, type bytes included)", "handler_results": "14 shapes: all five message types with arbitrary payload bytes, null, arrays (odd, nested, absent element), nil message, error with arbitrary text, message+error", "non_array_requests": "11 shapes: every top-level type, null/empty/nested/absent first element", "example_store": "GET/HGET of stored values with arbitrary bytes"}
		},
		Assumptions: append(append([]string{"the oracle is the harness's own strict RESP2 reader over the raw bytes written to the connection"}, connLoopAssumptions...), commonAssumptions...),
		Outside:     []string{"payloads longer than the bound", "handlers that panic"},
	})
	register(&Prop{
		ID: "C07",
		Jobs: func(rc *RunCtx) []JobSpec {
			var js []JobSpec
			names := CommandNames(rc.Ld)
			ma := "1"
			if rc.Tier == "thorough" {
				ma = "3"
			}
			for _, c := range names {
				js = append(js, JobSpec{Set: "redis", Fn: "HarnessC04Reply", Params: p("cmd", c, "maxargs", ma, "maxlen", "1", "boundary", "1", "plainresults", "1"), Split: 4, Timeout: 15 * time.Minute})
			}
			js = append(js, JobSpec{Set: "redis", Fn: "HarnessC04Raw", Params: p()})
			js = append(js, JobSpec{Set: "redis", Fn: "HarnessC07Stream", Params: p("L", map[string]string{"quick": "6", "thorough": "8"}[rc.Tier]), Split: 5})
			js = append(js, JobSpec{Set: "redis", Fn: "HarnessC03Pipeline", Params: p("cmd", "SCAN", "fixed", "0,MATCH", "maxargs", "1", "maxlen", map[string]string{"quick": "3", "thorough": "4"}[rc.Tier], "unwind", "256"), Split: 3})
			// an offender and a well-behaved witness served concurrently by the real accept loop
			wit := []string{"GET", "ZADD", "SCAN", "CONFIG", "QUIT", "nosuchcmd"}
			if rc.Tier == "thorough" {
				for _, c := range wit {
					js = append(js, JobSpec{Set: "redis", Fn: "HarnessC07Witness", Params: p("cmd", c, "maxargs", "1", "maxlen", "1", "preempt", "1"), Split: 8, Overrides: netOverrides, Timeout: 40 * time.Minute})
				}
				wit = append(append([]string{}, names...), "nosuchcmd")
			}
			for _, c := range wit {
				js = append(js, JobSpec{Set: "redis", Fn: "HarnessC07Witness", Params: p("cmd", c, "maxargs", "1", "maxlen", "1", "preempt", "0"), Split: 3, Overrides: netOverrides})
			}
			sa, fb, md, me := "1", "1", "1", "2"
			if rc.Tier == "thorough" {
				sa, fb, md, me = "3", "0", "2", "3"
			}
			for _, c := range names {
				js = append(js, JobSpec{Set: "server", Fn: "HarnessC07Store", Params: p("cmd", c, "maxargs", sa, "maxelems", me, "fixednow", "1"), Split: 4})
			}
			tmpls := []string{"LRANGE", "LINDEX", "LPOP", "RPOP", "GETRANGE", "SUBSTR", "ZRANGE", "ZRANGE-REV", "ZRANGE-LIMIT", "ZRANGE-BYSCORE", "ZREVRANGE", "ZRANGEBYSCORE", "ZREVRANGEBYSCORE", "SCAN", "SETEX", "EXPIRE", "INCRBY", "DECRBY", "SELECT"}
			if rc.Tier != "thorough" {
				// quick: the score bounds of the three BYSCORE templates come from three tokens (the index arithmetic is in LIMIT)
				for i, t := range tmpls {
					if strings.HasSuffix(t, "BYSCORE") {
						tmpls[i] = t + "-Q"
					}
				}
			}
			for _, t := range tmpls {
				js = append(js, JobSpec{Set: "server", Fn: "HarnessC07Index", Params: p("tmpl", t, "maxelems", me, "fixednow", "1", "fewbounds", fb, "maxdigits", md), Split: 5, Timeout: 15 * time.Minute})
			}
			return js
		},
		UnwindIsFinding: true,
		RequiredCovers:  map[string][]string{"HarnessC04Reply": {"end"}, "HarnessC07Stream": {"end"}, "HarnessC07Store": {"end"}, "HarnessC07Index": {"end"}, "HarnessC03Pipeline": {"end"}, "HarnessC07Witness": {"end", "garbage", "cut", "reset", "write-failure"}},
		EngineOnly:      map[string]bool{"HarnessC07Witness": true},
		Bounds: func(tier string) map[string]interface{} {
			return map[string]interface{}{"framework": "every registered command x <=1 (thorough 3) arguments, each any 0..1-byte string or one of 15 boundary integer tokens (0, +-1, +-2^31, 2^63-2, 2^63-1, -2^63, out-of-range, fractional), handler returning any of 7 result shapes (the 14-shape space incl. nil results is C04)", "byte_streams": "every byte string up to 6 (thorough 8) bytes through the connection loop", "scan_match": "SCAN 0 MATCH p for every p of <=3 (thorough 4) arbitrary bytes (invalid UTF-8 decided exactly)", "witness": "offender sending one request of GET/ZADD/SCAN/CONFIG/QUIT/an unknown command (thorough: every command) with <=1 arbitrary 0..1-byte argument and then behaving (close at the boundary) or misbehaving (1 garbage byte, FIN or RST at every offset, not reading replies), concurrently with a witness doing ECHO/GET/PING on the real accept loop (stub network), every non-preemptive interleaving (thorough: <=1 preemption for the six commands); then a late client", "example_store": "every command with <=1 (thorough 3) loose arguments, and 19 index/count/LIMIT templates (LRANGE, LINDEX, LPOP, RPOP, GETRANGE, SUBSTR, ZRANGE incl. REV/LIMIT/BYSCORE, ZREVRANGE, Z(REV)RANGEBYSCORE LIMIT, SCAN COUNT, SETEX, EXPIRE, INCRBY, DECRBY, SELECT) whose integers are 6 (thorough 15) boundary tokens or sign + 1 (thorough 2) symbolic digits (quick: the score bounds of the three BYSCORE templates are one of 0, 2, -1), against key k absent or holding a string/list/set/zset/hash of <=2 (thorough 3) symbolic elements; clock concrete"}
		},
		Assumptions: append(append([]string{
			"reduction: an unrecovered panic, fatal error or attacker-sized allocation in the connection goroutine terminates the process and with it every client; cross-connection interference through shared state is C13/C14/C16",
			"a loop whose trip count is an attacker-chosen integer beyond the unwinding bound is replayed natively under a wall-clock limit",
		}, connLoopAssumptions...), commonAssumptions...),
		Outside: []string{"witness-connection experiment over real sockets and with more than one offender", "handlers that panic themselves"},
	})
}

func init() {
	register(&Prop{
		ID: "C11",
		Jobs: func(rc *RunCtx) []JobSpec {
			if rc.Tier == "thorough" {
				return []JobSpec{{Set: "redis", Fn: "HarnessC11Cut", Params: p("requests", "3"), Split: 5}, {Set: "redis", Fn: "HarnessC11Cut", Params: p("requests", "2"), Split: 3}}
			}
			return []JobSpec{{Set: "redis", Fn: "HarnessC11Cut", Params: p("requests", "2"), Split: 3}, {Set: "redis", Fn: "HarnessC11Cut", Params: p("requests", "1")}}
		},
		UnwindIsFinding: true, // the connection's goroutine must end: a loop that does not is replayed natively under a wall-clock limit
		RequiredCovers:  map[string][]string{"HarnessC11Cut": {"end", "cut-inside-stream", "peer-stopped-reading"}},
		Bounds: func(tier string) map[string]interface{} {
			r := 2
			if tier == "thorough" {
				r = 3
			}
			return map[string]interface{}{"pipeline_requests": r, "request_grammar": "GET k | SET k v | LPOP k 5 | MSET k v | DEL k k2 | ZADD k 1 m | LRANGE k 0 -1 | PING, payload bytes symbolic", "cut_point": "every byte offset 0..len(stream), as half-close (EOF) and as reset (read error, writes failing)"}
		},
		Assumptions: append(append([]string{"goroutine termination is observed as Server.receive returning (the accept loop starts exactly one goroutine per connection running receive)"}, connLoopAssumptions...), commonAssumptions...),
		Outside:     []string{"pipelines longer than the bound, requests outside the small grammar"},
	})
	register(&Prop{
		ID: "C20",
		Jobs: func(rc *RunCtx) []JobSpec {
			var js []JobSpec
			ma := "1"
			if rc.Tier == "thorough" {
				ma = "2"
			}
			for _, c := range CommandNames(rc.Ld) {
				js = append(js, JobSpec{Set: "redis", Fn: "HarnessC20Spans", Params: p("cmd", c, "maxargs", ma), Split: 4})
			}
			js = append(js, JobSpec{Set: "redis", Fn: "HarnessC20Spans", Params: p("cmd", "nosuch", "maxargs", "1")})
			return js
		},
		RequiredCovers: map[string][]string{"HarnessC20Spans": {"end", "quit", "protocol-error", "unauthorised", "disconnect-inside"}},
		Bounds: func(tier string) map[string]interface{} {
			return map[string]interface{}{"pipeline": "[cmd args] followed by PING | QUIT PING | protocol error | unknown command", "commands": "every registered executor (composed ones re-enter the dispatcher)", "args": "<=1 (thorough 2) arbitrary 0..1-byte arguments", "authorisation": "with and without requirepass", "disconnect": "none or end of stream at every byte offset", "handler_results": "7 shapes incl. error"}
		},
		Assumptions: append(append([]string{"the tracer double builds span contexts as a push/pop stack exactly like go-tracing's common.spanContext"}, connLoopAssumptions...), commonAssumptions...),
		Outside:     []string{"tracer implementations whose span contexts are not a stack"},
	})
}

func init() {
	register(&Prop{
		ID: "C05",
		Jobs: func(rc *RunCtx) []JobSpec {
			var js []JobSpec
			sm, dg, lm := "2", "2", "2"
			if rc.Tier == "thorough" {
				sm, dg, lm = "3", "18", "3"
			}
			for _, c := range CommandNames(rc.Ld) {
				d := dg
				if rc.Tier == "thorough" && (c == "EXPIRE" || c == "EXPIREAT" || c == "SETEX" || c == "SET") {
					// seconds/milliseconds are multiplied by 10^9 / 10^6 and added to a symbolic clock: with 9 or 18 symbolic
					// digits the queries do not come back (15 min without an answer; one portfolio run answered "sat" for an
					// assertion and then could not produce the model, which is inconclusive, not a finding); 6 digits are
					// decided in 1.4 s per query
					d = "6"
				}
				js = append(js, JobSpec{Set: "redis", Fn: "HarnessC05Dispatch", Params: p("cmd", c, "strmax", sm, "digits", d, "listmax", lm), Split: 4})
			}
			js = append(js, JobSpec{Set: "redis", Fn: "HarnessC05Unknown", Params: p("namelen", map[string]string{"quick": "3", "thorough": "4"}[rc.Tier]), Split: 2})
			return js
		},
		RequiredCovers: map[string][]string{"HarnessC05Dispatch": {"end"}, "HarnessC05Unknown": {"end", "unknown", "custom"}},
		Bounds: func(tier string) map[string]interface{} {
			if tier == "thorough" {
				return map[string]interface{}{"commands": "every registered command that the independent grammar maps onto a handler operation (others are reported under covers: not-in-grammar)", "strings": "0..3 bytes, all byte values", "integers": "sign + 1..18 symbolic digits (1..6 for the expiry arguments of SET/SETEX/EXPIRE/EXPIREAT: their multiplication by 10^9 plus the symbolic clock is out of the solvers' reach from 9 digits on)", "floats": "every 1..2-byte literal that parses, and inf/+inf/-inf for score bounds", "lists": "1..3 elements, duplicates allowed", "options": "all subsets, two orders, every letter case"}
			}
			return map[string]interface{}{"commands": "every registered command that the independent grammar maps onto a handler operation (others are reported under covers: not-in-grammar)", "strings": "0..2 bytes, all byte values", "integers": "sign + 1..2 symbolic digits", "floats": "every 1..2-byte literal that parses, and inf/+inf/-inf for score bounds", "lists": "1..2 elements, duplicates allowed", "options": "all subsets, two orders, every letter case"}
		},
		Assumptions: append(append([]string{
			"EXPIRE: the expected time is now+ttl for a clock reading between two readings of the harness; time.Now is an intrinsic returning non-decreasing wall-clock instants in [2020,2096]",
			"SCAN MATCH: the handler must receive the pattern compiled the same way KEYS compiles it (glob semantics themselves are C17)",
		}, connLoopAssumptions...), commonAssumptions...),
		Outside: []string{"commands answered by the framework itself (PING, ECHO, SELECT, QUIT, CONFIG, AUTH) and derived commands (C12)", "float literals longer than 2 bytes"},
	})
	register(&Prop{
		ID: "C10",
		Jobs: func(rc *RunCtx) []JobSpec {
			var js []JobSpec
			for _, c := range CommandNames(rc.Ld) {
				js = append(js, JobSpec{Set: "redis", Fn: "HarnessC10Reject", Params: p("cmd", c)})
			}
			js = append(js, JobSpec{Set: "redis", Fn: "HarnessC10SetOptions", Params: p()})
			for t := 0; t < 16; t++ {
				js = append(js, JobSpec{Set: "redis", Fn: "HarnessC10Options", Params: p("template", fmt.Sprint(t))})
			}
			return js
		},
		RequiredCovers: map[string][]string{"HarnessC10Reject": {"end", "missing", "null", "non-numeric", "bad-integer", "dangling-half"}, "HarnessC10SetOptions": {"end", "nx-xx", "two-expiries", "non-positive-expiry", "repeated"}, "HarnessC10Options": {"end", "null", "non-numeric", "bad-integer"}},
		Bounds: func(tier string) map[string]interface{} {
			return map[string]interface{}{"commands": "every registered command with an entry in the independent grammar table", "malformations": "each required position omitted; each element replaced by a null bulk; each numeric position replaced by any 1..2-byte non-numeric token, by out-of-range / fractional / empty tokens; each pair list cut to odd length; SET: NX/XX combined or repeated, two expiries, non-positive expiry (sign + 1..2 digits), repeated KEEPTTL/GET, expiry without value", "option_values": "16 templates (Z*RANGE* LIMIT offset count with and without WITHSCORES/BYSCORE/REV, SET EX/PX/EXAT/PXAT, SCAN COUNT/MATCH/TYPE, LPOP/RPOP count): each option value missing, null, any 0..2-byte non-number, 7 bad-integer tokens, while the other option values are any digit 1..9"}
		},
		Assumptions: append(append([]string{}, connLoopAssumptions...), commonAssumptions...),
		Outside:     []string{"random corruption beyond the enumerated malformation classes"},
	})
}

var netOverrides = map[string]string{"net.Listen": "vnetListen"}

func init() {
	register(&Prop{
		ID: "C08",
		Jobs: func(rc *RunCtx) []JobSpec {
			if rc.Tier == "thorough" {
				return []JobSpec{
					{Set: "redis", Fn: "HarnessC08Gate", Params: p("requests", "3", "passlen", "2"), Split: 4, Overrides: netOverrides},
					{Set: "redis", Fn: "HarnessC08Gate", Params: p("requests", "2", "passlen", "3"), Split: 3, Overrides: netOverrides},
					{Set: "redis", Fn: "HarnessC08Gate", Params: p("requests", "2", "passlen", "1", "tls", "1"), Split: 6, Overrides: netOverrides},
					{Set: "redis", Fn: "HarnessC08Gate", Params: p("requests", "3", "passlen", "1", "small", "1", "tls", "1"), Split: 4, Overrides: netOverrides},
					{Set: "redis", Fn: "HarnessC08TwoConns", Params: p("passlen", "2", "preempt", "2"), Split: 8, Overrides: netOverrides},
					{Set: "redis", Fn: "HarnessC08Long", Params: p("extra", "255"), Overrides: netOverrides},
					{Set: "redis", Fn: "HarnessC08Long", Params: p("extra", "256"), Overrides: netOverrides},
					{Set: "redis", Fn: "HarnessC08Long", Params: p("extra", "257"), Overrides: netOverrides},
					{Set: "redis", Fn: "HarnessC08Long", Params: p("extra", "65536"), Overrides: netOverrides},
				}
			}
			return []JobSpec{
				{Set: "redis", Fn: "HarnessC08Gate", Params: p("requests", "2", "passlen", "2"), Split: 6, Overrides: netOverrides},
				{Set: "redis", Fn: "HarnessC08Gate", Params: p("requests", "3", "passlen", "1", "small", "1"), Split: 4, Overrides: netOverrides},
				{Set: "redis", Fn: "HarnessC08Gate", Params: p("requests", "2", "passlen", "1", "small", "1", "tls", "1"), Split: 3, Overrides: netOverrides},
				{Set: "redis", Fn: "HarnessC08TwoConns", Params: p("passlen", "1", "preempt", "1"), Overrides: netOverrides},
				{Set: "redis", Fn: "HarnessC08Long", Params: p("extra", "255"), Overrides: netOverrides},
				{Set: "redis", Fn: "HarnessC08Long", Params: p("extra", "256"), Overrides: netOverrides},
				{Set: "redis", Fn: "HarnessC08Long", Params: p("extra", "257"), Overrides: netOverrides},
				{Set: "redis", Fn: "HarnessC08Long", Params: p("extra", "512"), Overrides: netOverrides},
			}
		},
		RequiredCovers: map[string][]string{"HarnessC08Gate": {"end", "auth-one-arg", "auth-two-args", "auth-null", "authorised", "refused"}, "HarnessC08TwoConns": {"end"}, "HarnessC08Long": {"end"}},
		Bounds: func(tier string) map[string]interface{} {
			return map[string]interface{}{"long_candidates": "password followed by 255, 256, 257, 512 (thorough 65536) arbitrary bytes", "password": "every byte string of length 0..2 (thorough 3)", "candidates": "every byte string of length 0..len(password)+1 (so empty, prefixes, extensions, case variants, embedded NUL/CRLF are all inside), null bulk, missing argument, one- and two-argument forms", "sequence": "2 (thorough 3) requests from {AUTH forms, GET, PING, SELECT, CONFIG SET}", "connections": "second harness: two connections in every interleaving of their reads"}
		},
		Assumptions: append(append([]string{"Server.Start runs for real with net.Listen redirected to a stub port table; accept loops are spawned and block in Accept"}, connLoopAssumptions...), commonAssumptions...),
		Outside:     []string{"longer passwords and sequences", "TLS connections (C09)"},
	})
}

func init() {
	register(&Prop{
		ID: "C13",
		Jobs: func(rc *RunCtx) []JobSpec {
			if rc.Tier == "thorough" {
				return []JobSpec{
					{Set: "redis", Fn: "HarnessC13Conns", Params: p("requests", "2", "preempt", "2", "requirepass", "1"), Split: 12, Overrides: netOverrides},
					{Set: "redis", Fn: "HarnessC13Conns", Params: p("requests", "2", "preempt", "2", "requirepass", "0"), Split: 12, Overrides: netOverrides},
					{Set: "redis", Fn: "HarnessC13Conns", Params: p("requests", "3", "preempt", "1", "requirepass", "1"), Split: 12, Overrides: netOverrides},
					{Set: "redis", Fn: "HarnessC13Select", Params: p(), Split: 3},
				}
			}
			return []JobSpec{
				{Set: "redis", Fn: "HarnessC13Conns", Params: p("requests", "2", "preempt", "1", "requirepass", "0"), Split: 10, Overrides: netOverrides},
				{Set: "redis", Fn: "HarnessC13Conns", Params: p("requests", "2", "preempt", "1", "requirepass", "1"), Split: 10, Overrides: netOverrides},
				{Set: "redis", Fn: "HarnessC13Select", Params: p(), Split: 3},
			}
		},
		RequiredCovers: map[string][]string{"HarnessC13Conns": {"end"}, "HarnessC13Select": {"end", "select-accepted", "select-refused"}},
		Bounds: func(tier string) map[string]interface{} {
			return map[string]interface{}{"connections": 2, "requests_per_connection": "2 (thorough also 3 with a password required)", "request_alphabet": "SELECT d (symbolic digit) | AUTH right | AUTH wrong | GET | USET v (per-connection user data in the connection's sync.Map) | UGET", "schedules": "all interleavings of the two connection goroutines at transport reads and synchronisation operations with at most 1 (thorough 2) preemptive context switches", "requirepass": "with and without", "successor": "after both connections have gone a third connection is served: it must start from the defaults (database 0, no user data, unauthorised when a password is required)", "select_tokens": "one connection: SELECT t1, GET, select t2, GET, SELECT (no argument), GET with t1,t2 any 1..2-byte token or one of 11 boundary tokens: the database seen by the handler changes only with a SELECT answered +OK"}
		},
		Assumptions: append(append([]string{"goroutines are scheduled by the engine at Read calls of the scripted connections and at every mutex / sync.Map / atomic operation; preemption between two plain memory accesses is outside the bound (data races are C14)"}, connLoopAssumptions...), commonAssumptions...),
		Outside:     []string{"more than two connections, more context switches"},
	})
}

func init() {
	register(&Prop{
		ID: "C12",
		Jobs: func(rc *RunCtx) []JobSpec {
			var js []JobSpec
			ml, mm := "4", "4"
			if rc.Tier == "thorough" {
				ml, mm = "6", "5"
			}
			for _, f := range []string{"getrange", "counter", "string", "multi", "hash", "set", "zrev", "zrevscore", "system"} {
				js = append(js, JobSpec{Set: "redis", Fn: "HarnessC12Derived", Params: p("family", f, "maxlen", ml, "maxmembers", mm), Split: 5})
			}
			js = append(js, JobSpec{Set: "redis", Fn: "HarnessC12Derived", Params: p("family", "seq", "steps", map[string]string{"quick": "2", "thorough": "3"}[rc.Tier]), Split: 5})
			return js
		},
		RequiredCovers: map[string][]string{"HarnessC12Derived": {"end", "non-empty-range", "boundary", "overflow", "non-integer", "msetnx-refused"}},
		Bounds: func(tier string) map[string]interface{} {
			return map[string]interface{}{"getrange": "value length 0..4 (thorough 6), all byte values; start/end: sign + 1..2 symbolic digits and 8 boundary integers; missing key", "counters": "stored value absent / sign + 1..2 symbolic digits / any 0..2-byte non-integer (the empty string included); increment symbolic or int64 boundary", "programs": "2 (thorough 3) steps from MSET, MSETNX a|b, INCR, APPEND, MGET, STRLEN, GETRANGE over keys a,b each absent / \"5\" / empty, against an executable model", "zrevrange": "0..4 (thorough 5) members, start/stop sign + 1..2 symbolic digits, with and without scores", "zrevrangebyscore": "0..3 members, 11 bound tokens each side incl. exclusive and infinities", "multi_key": "MSET/MSETNX/MGET over keys {a,b,c} with duplicates and every present/absent/empty-valued combination; map iteration order enumerated", "hash": "0..2 fields; HEXISTS HSTRLEN HLEN HKEYS HVALS HMGET HMSET", "system": "PING, PING msg, ECHO, CONFIG SET/GET over 2 keys"}
		},
		Assumptions: append(append([]string{
			"the handler is the harness's reference store whose primitive operations (Get, Set incl. NX, HGet, HSet, HGetAll, SMembers, ZRange, ZRangeByScore) follow Redis",
			"PING with an explicitly empty argument is not distinguished from PING without argument (the SystemCommandHandler signature cannot express it): known finding when it shows up",
		}, connLoopAssumptions...), commonAssumptions...),
		Outside: []string{"LIMIT on ZREVRANGEBYSCORE", "values and indices beyond the bounds"},
	})
}

func init() {
	register(&Prop{
		ID: "C09",
		Jobs: func(rc *RunCtx) []JobSpec {
			js := []JobSpec{
				{Set: "auth", Fn: "HarnessC09CertRule", Params: p()},
				{Set: "redis", Fn: "HarnessC09Gate", Params: p()},
				{Set: "redis", Fn: "HarnessC09Config", Params: p()},
				{Set: "redis", Fn: "HarnessC09Handshakes", Params: p("clients", "3", "preempt", "0"), Overrides: netOverrides},
			}
			if rc.Tier == "thorough" {
				js = append(js, JobSpec{Set: "redis", Fn: "HarnessC09Handshakes", Params: p("clients", "3", "preempt", "1"), Split: 6, Overrides: netOverrides})
				js = append(js, JobSpec{Set: "redis", Fn: "HarnessC09Handshakes", Params: p("clients", "4", "preempt", "0"), Split: 4, Overrides: netOverrides})
			}
			return js
		},
		EngineOnly:     map[string]bool{"HarnessC09Handshakes": true, "HarnessC09Config": true},
		RequiredCovers: map[string][]string{"HarnessC09CertRule": {"end", "no-certificate", "name-only-on-intermediate"}, "HarnessC09Gate": {"end", "rejected", "accepted"}, "HarnessC09Handshakes": {"end", "failed-handshake", "stalled-handshake"}, "HarnessC09Config": {"end"}},
		Bounds: func(tier string) map[string]interface{} {
			return map[string]interface{}{"name_rule": "rule and certificate common names: every byte string of length 1..2 / 0..2, chains of 0..3 certificates", "gate": "identities {none, wrong name (symbolic), right name only on issuer, right leaf name, empty name} x {rule, rule+password}, complete requests already waiting", "handshakes": "3 (thorough 4) clients on the TLS port, each handshake completes / fails / stalls, then a plain client; schedules: all non-preemptive (thorough: 1 preemption)", "tls_config": "ClientAuth, MinVersion, ClientCAs of NewTLSConfigFrom"}
		},
		Assumptions: append(append([]string{
			"crypto/tls and crypto/x509 are trusted: chain building, signature, expiry and cipher negotiation are theirs given ClientAuth=RequireAndVerifyClientCert; tls.Server/Handshake/ConnectionState are stubbed in the engine (outcome chosen by the harness)",
			"counterexamples of the handshake harness cannot be replayed on real sockets here; they are reported after deterministic re-execution in the engine",
		}, connLoopAssumptions...), commonAssumptions...),
		Outside: []string{"X.509 validation, real sockets, real handshakes"},
	})
}

func init() {
	register(&Prop{
		ID: "C19",
		Jobs: func(rc *RunCtx) []JobSpec {
			if rc.Tier == "thorough" {
				return []JobSpec{
					{Set: "redis", Fn: "HarnessC19Endings", Params: p("requests", "3", "junk", "4"), Split: 4},
					{Set: "redis", Fn: "HarnessC19Stop", Params: p("clients", "2", "preempt", "1"), Split: 8, Overrides: netOverrides},
					{Set: "redis", Fn: "HarnessC19Stop", Params: p("clients", "3", "preempt", "0", "maxsent", "1"), Split: 8, Overrides: netOverrides},
					{Set: "redis", Fn: "HarnessC09Handshakes", Params: p("clients", "3", "preempt", "0"), Overrides: netOverrides},
				}
			}
			return []JobSpec{
				{Set: "redis", Fn: "HarnessC19Endings", Params: p("requests", "2", "junk", "2"), Split: 3},
				{Set: "redis", Fn: "HarnessC19Stop", Params: p("clients", "2", "preempt", "0"), Split: 4, Overrides: netOverrides},
				{Set: "redis", Fn: "HarnessC09Handshakes", Params: p("clients", "2", "preempt", "0"), Overrides: netOverrides},
			}
		},
		UnwindIsFinding: true, // a connection loop that never returns is a leaked connection
		EngineOnly:     map[string]bool{"HarnessC19Stop": true, "HarnessC09Handshakes": true},
		RequiredCovers: map[string][]string{"HarnessC19Endings": {"end", "eof-at-boundary", "eof-inside-request", "reset", "quit", "malformed", "write-failure", "rejected-certificate"}, "HarnessC19Stop": {"end", "mid-request", "close-error", "blocked-write"}, "HarnessC09Handshakes": {"end", "failed-handshake"}},
		Bounds: func(tier string) map[string]interface{} {
			return map[string]interface{}{"endings": "FIN at a request boundary, FIN at every offset inside the pipeline, RST at every offset, QUIT, malformed frame (1..2, thorough 4 arbitrary bytes), write failure from reply k on, rejected certificate, TLS handshake failure/stall, server Stop with idle and mid-request clients", "pipeline": "1..2 (thorough 3) SET requests with symbolic payload", "stop": "1..2 clients, each with 0..2 complete requests sent (thorough: also 3 clients with 0..1) and optionally a partial one; the first client may have stopped reading (the server's reply write blocks until the socket is closed)"}
		},
		Assumptions: append(append([]string{
			"per-connection release is what is decided: socket closed, connection loop returned, registry entry gone; return-to-baseline under churn follows inductively because connections share no per-connection resource (C13/C14); descriptor and goroutine counts over 10^4 real cycles are outside the claim",
			"an idle client is a scripted connection whose Read blocks until the connection is closed (as the runtime poller unblocks a pending read on Close)",
		}, connLoopAssumptions...), commonAssumptions...),
		Outside: []string{"kernel descriptors, real sockets, long churn runs"},
	})
}

var c18Commands = []string{"SET", "GET", "GETSET", "SETNX", "APPEND", "STRLEN", "MSET", "MGET", "DEL", "EXISTS", "TYPE", "RENAME", "RENAMENX", "KEYS",
	"HSET", "HGET", "HDEL", "HLEN", "HGETALL", "LPUSH", "RPUSH", "LPOP", "RPOP", "LPOPN", "RPOPN", "LRANGE", "LINDEX", "LLEN",
	"SADD", "SREM", "SMEMBERS", "SCARD", "SISMEMBER", "ZADD", "ZREM", "ZSCORE", "ZCARD", "ZINCRBY", "ZRANGE", "ZRANGEREV", "ZRANGEBYSCORE"}

func init() {
	register(&Prop{
		ID: "C18",
		Jobs: func(rc *RunCtx) []JobSpec {
			var js []JobSpec
			me, bt := "2", "2"
			if rc.Tier == "thorough" {
				me, bt = "3", "6"
			}
			for _, c := range c18Commands {
				js = append(js, JobSpec{Set: "server", Fn: "HarnessC18Step", Params: p("cmd", c, "maxelems", me, "btypes", bt, "fixednow", "1"), Split: 5})
			}
			return js
		},
		RequiredCovers: map[string][]string{"HarnessC18Step": {"end"}},
		Bounds: func(tier string) map[string]interface{} {
			return map[string]interface{}{"method": "one inductive step: symbolic pre-state under the representation invariant (set: no duplicates; sorted set: ascending by score, one entry per member; hash: Go map), one command, reply and post-state compared with an executable Redis model", "pre_state": "key a: absent | string (0..2 symbolic bytes) | list | set | sorted set | hash of 1..2 (thorough 3) one-byte symbolic elements; key b: absent | string (thorough: any type); key c absent", "commands": c18Commands, "arguments": "keys from {a,b,c}; members, fields and values symbolic one-byte strings (collisions decided by the solver); scores from {0,1,1.5,2,2.5,3,4}; indexes -3..3; score bounds incl. exclusive and infinities; LIMIT offset 0..2 count -1..2"}
		},
		Assumptions: append([]string{
			"each key is used with one data type (combinations that would mix types are assumed away, as in the property)",
			"error texts are not compared, only that the reply is an error",
			"invariant preservation is asserted after every step, so the single step speaks for single-client programs of any length over states satisfying the invariant",
			"expiry is outside the claim; the clock is concrete in this check",
		}, commonAssumptions...),
		Outside: []string{"containers larger than the bound", "keys used with two types", "ZADD option flags, ZRANGE REV/BYSCORE forms, SET option flags (interface-rooted reply shapes)"},
	})
}

func init() {
	register(&Prop{
		ID: "C14",
		Jobs: func(rc *RunCtx) []JobSpec {
			entries := []string{"configset", "configget", "setpass", "ping", "ping-lc", "select", "auth", "get", "quit", "connect", "conns", "connbyuuid", "addauth", "requirepass", "stop", "restart", "rotate"}
			lifecycle := map[string]bool{"stop": true, "restart": true, "rotate": true}
			pre := "1"
			if rc.Tier == "thorough" {
				pre = "2"
			}
			var js []JobSpec
			for i, a := range entries {
				for _, b := range entries[i:] {
					if lifecycle[a] && lifecycle[b] {
						continue
					}
					for _, wp := range []string{"0", "1"} {
						if wp == "1" && !(a == "auth" || b == "auth" || a == "setpass" || b == "setpass" || a == "requirepass" || b == "requirepass" || a == "restart" || b == "restart" || a == "rotate" || b == "rotate") {
							continue
						}
						js = append(js, JobSpec{Set: "redis", Fn: "HarnessC14Pair", Params: p("a", a, "b", b, "preempt", pre, "withpass", wp), Overrides: netOverrides})
					}
				}
			}
			// every registered command against itself (two connections, different arguments)
			names := CommandNames(rc.Ld)
			for _, c := range names {
				js = append(js, JobSpec{Set: "redis", Fn: "HarnessC14Pair", Params: p("a", "cmd:0:"+c, "b", "cmd:1:"+c, "preempt", pre, "withpass", "0"), Overrides: netOverrides})
			}
			if rc.Tier == "thorough" {
				// every pair of two different registered commands (state shared between command families), one preemption
				for i, c := range names {
					for _, d := range names[i+1:] {
						js = append(js, JobSpec{Set: "redis", Fn: "HarnessC14Pair", Params: p("a", "cmd:0:"+c, "b", "cmd:1:"+d, "preempt", "1", "withpass", "0"), Overrides: netOverrides})
					}
				}
			}
			return js
		},
		RequiredCovers: map[string][]string{"HarnessC14Pair": {"end"}},
		Bounds: func(tier string) map[string]interface{} {
			return map[string]interface{}{"goroutines": 2, "commands": "every registered command against itself on two connections with different canned arguments (thorough: also every pair of two different commands, 1 preemption)", "entries": "every unordered pair (incl. twice the same) of: a connection executing CONFIG SET / CONFIG GET / CONFIG SET requirepass / PING / ping / SELECT / AUTH / GET / QUIT, a bare connect+disconnect, Conns(), ConnByUUID(), AddAuthenticator(), SetRequirePass(), Stop(), Restart()+Stop(), password rotation (SetRequirePass()+Restart()+Stop()); with and without a configured password where it matters", "schedules": "all interleavings at synchronisation operations with <=1 (thorough 2) preemptions", "detector": "vector clocks per goroutine and per memory cell / map (FastTrack style); happens-before from go statements, sync.Mutex/RWMutex, sync.Map, sync/atomic, WaitGroup"}
		},
		Assumptions: append([]string{
			"a race candidate found by the engine is reported only after the same harness, run natively under `go test -race` (up to 12 attempts, private network namespace; natively each entry is repeated 60 times so that the window between the two accesses is hit), reports a data race too",
			"two concurrent lifecycle calls (Stop||Restart) are not part of the workload; races inside application handlers and inside the Go runtime are outside the claim",
			"preemption points are synchronisation operations; a race is an unordered pair of accesses, so it is detected on any schedule on which both accesses occur, whether or not they overlap in time",
		}, commonAssumptions...),
		Outside: []string{"more than two goroutines", "TLS accept loop and handshake goroutines"},
	})
}

func init() {
	register(&Prop{
		ID: "C15",
		Jobs: func(rc *RunCtx) []JobSpec {
			var js []JobSpec
			seqs := []string{"ST", "SR", "SRT", "STS", "SRR", "SS", "SDT"}
			cl, pre := "1", "1"
			if rc.Tier == "thorough" {
				seqs = append(seqs, "STST", "SRTS", "STSR", "SRRT")
				cl, pre = "2", "2"
			}
			for _, s := range seqs {
				js = append(js, JobSpec{Set: "redis", Fn: "HarnessC15Lifecycle", Params: p("seq", s, "clients", cl, "preempt", pre), Split: 6, Overrides: netOverrides})
			}
			// both ports (TLS handshake stubbed): the TLS accept loop has its own shutdown path
			tl := []string{"SRT", "STS", "SRTS"}
			if rc.Tier == "thorough" {
				// the plain port disabled by configuration while running, with the TLS port still enabled
				tl = append(tl, "SDT", "SDR")
			}
			for _, s := range tl {
				js = append(js, JobSpec{Set: "redis", Fn: "HarnessC15Lifecycle", Params: p("seq", s, "clients", "0", "preempt", "1", "tls", "1"), Split: 6, Overrides: netOverrides})
			}
			return js
		},
		EngineOnly:     map[string]bool{"HarnessC15Lifecycle": true},
		RequiredCovers: map[string][]string{"HarnessC15Lifecycle": {"end", "started", "stopped", "call-failed"}},
		Bounds: func(tier string) map[string]interface{} {
			return map[string]interface{}{"histories": "Start/Stop/Restart sequences ST, SR, SRT, STS, SRR, SS, SDT (D = the plain port disabled by configuration while running) (thorough: + STST, SRTS, STSR, SRRT) on the plain port; SRT, STS, SRTS (thorough: + SDT, SDR) with the TLS port enabled as well", "clients": "1 (thorough 2) clients, each arriving while a nondeterministically chosen lifecycle call executes, then idle", "schedules": "caller, accept loops, connection goroutines and clients interleaved at synchronisation operations and at the verif-tagged schedule points, <=1 (thorough 2) preemptions", "network": "stub port table (bind fails while a listener on the port is open; closing a listener resets queued connections; a blocked Accept returns on close)"}
		},
		Assumptions: append([]string{
			"net.Listen is redirected to the harness's port table; Accept blocks until a connection is queued or the listener is closed",
			"'after Stop returned' is judged at quiescence for sockets, ports and the registry; that goroutines are still winding down when Stop returns is a known finding (known_findings.txt)",
			"counterexamples are schedules of the engine's scheduler; they are reported after deterministic re-execution in the engine (native replay would need a schedule controller over real goroutines)",
		}, commonAssumptions...),
		Outside: []string{"real ports and kernel accept queues, timing, TLS port lifecycle, longer histories"},
	})
}

func init() {
	register(&Prop{
		ID: "C16",
		Jobs: func(rc *RunCtx) []JobSpec {
			cmds := []string{"GET", "SET", "SETNX", "SETNX2", "GETSET", "INCR", "DECRBY", "APPEND", "MSETNX", "DEL", "GETJ"}
			pre := "2"
			if rc.Tier == "thorough" {
				pre = "4"
			}
			var js []JobSpec
			for i, a := range cmds {
				for _, b := range cmds[i:] {
					if (a == "GET" || a == "GETJ") && (b == "GET" || b == "GETJ") {
						continue
					}
					js = append(js, JobSpec{Set: "redis", Fn: "HarnessC16Atomic", Params: p("a", a, "b", b, "preempt", pre)})
					js = append(js, JobSpec{Set: "server", Fn: "HarnessC16Store", Params: p("a", a, "b", b, "preempt", pre, "fixednow", "1"), Split: 5})
				}
			}
			// collection commands of the example store: every pair within one data type, on the same key
			cpre := "2"
			if rc.Tier == "thorough" {
				cpre = "3"
			}
			for _, fam := range [][]string{
				{"LPUSHa", "LPUSHb", "RPUSHc", "LPOP", "RPOP", "LLEN"},
				{"HSETf", "HSETg", "HSETf2", "HDELf", "HLEN", "HGETf"},
				{"SADDa", "SADDb", "SREMa", "SCARD"},
				{"ZADD1a", "ZADD2b", "ZADD3a", "ZREMa", "ZCARD"},
			} {
				for i, a := range fam {
					for _, b := range fam[i:] {
						js = append(js, JobSpec{Set: "server", Fn: "HarnessC16Coll", Params: p("a", a, "b", b, "preempt", cpre, "fixednow", "1"), Split: 5})
					}
				}
			}
			return js
		},
		EngineOnly:     map[string]bool{"HarnessC16Atomic": true, "HarnessC16Store": true, "HarnessC16Coll": true},
		RequiredCovers: map[string][]string{"HarnessC16Atomic": {"end"}, "HarnessC16Store": {"end"}, "HarnessC16Coll": {"end"}},
		Bounds: func(tier string) map[string]interface{} {
			return map[string]interface{}{"clients": 2, "commands_per_client": 1, "command_pairs": "every unordered pair from GET k, SET k, SETNX k (two values), GETSET k, INCR k, DECRBY k 3, APPEND k, MSETNX k j, DEL k, GET j", "initial_store": "k absent | \"5\" | \"x\"", "collections": "example store: every unordered pair (incl. twice the same) within LPUSH a|LPUSH b|RPUSH c|LPOP|RPOP|LLEN on one list, HSET f|HSET g|HSET f (other value)|HDEL f|HLEN|HGET f on one hash, SADD a|SADD b|SREM a|SCARD on one set, ZADD 1 a|ZADD 2 b|ZADD 3 a|ZREM a|ZCARD on one sorted set; each collection initially absent or holding one element; <=2 (thorough 3) preemptions", "interleavings": "reference store: all interleavings at handler-operation boundaries; example store: all interleavings at its sync.Map operations, at its lock operations and at plain stores to memory another goroutine has touched; <=2 (thorough 4) preemptions", "oracle": "replies and final store equal those of A;B or of B;A under the harness's Redis model"}
		},
		Assumptions: append([]string{
			"with two clients issuing one command each, linearizability is: the observed (replies, final state) equal one of the two sequential orders",
			"the reference store's primitive operations are atomic (no scheduling point inside); derived commands are sequences of primitives",
			"schedules are produced by the engine's scheduler and reported after deterministic re-execution in the engine",
		}, commonAssumptions...),
		Outside: []string{"more than two clients, longer per-client programs, real-time order across sockets"},
	})
}
