package glob

import (
	"bufio"
	"fmt"
	"os"
	"strconv"
)

func init() {
	vsymHarnesses["ProbeC17Glob"] = ProbeC17Glob
}

// ProbeC17Glob (native only): for every pattern listed in $VSYM_C17_IN (one Go-quoted string per
// line) writes "quoted-pattern<TAB>quoted regexp source" or "quoted-pattern<TAB>ERR <error>" to
// $VSYM_C17_OUT, using the real glob.Compile of the current tree.
func ProbeC17Glob() {
	in, err := os.Open(os.Getenv("VSYM_C17_IN"))
	if err != nil {
		panic(err)
	}
	defer in.Close()
	out, err := os.Create(os.Getenv("VSYM_C17_OUT"))
	if err != nil {
		panic(err)
	}
	defer out.Close()
	w := bufio.NewWriter(out)
	defer w.Flush()
	sc := bufio.NewScanner(in)
	for sc.Scan() {
		p, err := strconv.Unquote(sc.Text())
		if err != nil {
			continue
		}
		func() {
			defer func() {
				if r := recover(); r != nil {
					fmt.Fprintf(w, "%s\tPANIC %v\n", strconv.Quote(p), r)
				}
			}()
			g, err := Compile(p)
			if err != nil {
				fmt.Fprintf(w, "%s\tERR %s\n", strconv.Quote(p), strconv.Quote(err.Error()))
				return
			}
			fmt.Fprintf(w, "%s\t%s\n", strconv.Quote(p), strconv.Quote(g.String()))
		}()
	}
}
