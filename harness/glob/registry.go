package glob

var vsymHarnesses = map[string]func(){}
