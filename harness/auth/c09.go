package auth

import (
	"crypto/tls"
	"crypto/x509"
	"crypto/x509/pkix"
	"net"
	"time"
)

func init() {
	vsymHarnesses["HarnessC09CertRule"] = HarnessC09CertRule
}

type vauthConn struct {
	state *tls.ConnectionState
	user  string
	pass  string
}

func (c *vauthConn) Read(b []byte) (int, error)         { return 0, nil }
func (c *vauthConn) Write(b []byte) (int, error)        { return len(b), nil }
func (c *vauthConn) Close() error                       { return nil }
func (c *vauthConn) LocalAddr() net.Addr                { return nil }
func (c *vauthConn) RemoteAddr() net.Addr               { return nil }
func (c *vauthConn) SetDeadline(t time.Time) error      { return nil }
func (c *vauthConn) SetReadDeadline(t time.Time) error  { return nil }
func (c *vauthConn) SetWriteDeadline(t time.Time) error { return nil }
func (c *vauthConn) UserName() (string, bool)           { return c.user, len(c.user) > 0 }
func (c *vauthConn) Password() (string, bool)           { return c.pass, len(c.pass) > 0 }
func (c *vauthConn) IsTLSConnection() bool              { return c.state != nil }
func (c *vauthConn) TLSConnectionState() (*tls.ConnectionState, bool) {
	return c.state, c.state != nil
}

// HarnessC09CertRule: the common-name rule accepts a connection iff the client's own (leaf)
// certificate carries the configured name - whatever the rest of the presented chain says.
func HarnessC09CertRule() {
	vsymUnwind(64)
	rule := vsymString("rule", 1+vsymChoice("rulelen", 2))
	a := NewCertificateAuthenticatorWith(WithCommonName(rule))
	n := vsymLen("chain", 3)
	if n == 0 {
		// plain connection or no client certificate
		conn := &vauthConn{}
		if vsymChoice("tls", 2) == 1 {
			conn.state = &tls.ConnectionState{}
		}
		ok, _ := a.Authenticate(conn)
		vsymAssert(!ok, "no-certificate-is-refused")
		vsymCover("no-certificate")
		vsymCover("end")
		return
	}
	var chain []*x509.Certificate
	var names []string
	for i := 0; i < n; i++ {
		cn := vsymString("cn", vsymLen("cnlen", 2))
		names = append(names, cn)
		chain = append(chain, &x509.Certificate{Subject: pkix.Name{CommonName: cn}})
	}
	conn := &vauthConn{state: &tls.ConnectionState{PeerCertificates: chain}}
	ok, err := a.Authenticate(conn)
	vsymAssert(err == nil, "no-error")
	vsymAssert(ok == (names[0] == rule), "accepted-iff-leaf-common-name-matches")
	if n > 1 && names[1] == rule && names[0] != rule {
		vsymCover("name-only-on-intermediate")
	}
	// through the manager (as the server consults it)
	mgr := NewAuthManager()
	mgr.AddAuthenticator(a)
	ok2, _ := mgr.Authenticate(conn)
	vsymAssert(ok2 == ok, "manager-agrees-with-authenticator")
	vsymCover("end")
}
