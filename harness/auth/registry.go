package auth

var vsymHarnesses = map[string]func(){}
