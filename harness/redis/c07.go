package redis

func init() {
	vsymHarnesses["HarnessC07Stream"] = HarnessC07Stream
}

// HarnessC07Stream: every byte string of length L sent to the connection loop: no panic escapes
// the connection goroutine, whatever was written is well-formed RESP, the connection ends closed.
func HarnessC07Stream() {
	L := vsymParamInt("L", 6)
	vsymUnwind(4*L + 280)
	server := NewServer()
	server.SetCommandHandler(&vhandler{mode: 0})
	in := vsymBytes("in", L)
	conn := newVconn(in)
	server.receive(conn, nil)
	_, ok := vStrictStream(conn.out)
	vsymAssert(ok, "reply-stream-well-formed")
	vsymAssert(conn.closed, "connection-closed-at-end")
	vsymAssert(len(server.Conns()) == 0, "registry-empty-at-end")
	if len(conn.out) > 0 {
		vsymCover("replied")
	}
	vsymCover("end")
}
