package redis

func init() {
	vsymHarnesses["HarnessC07Stream"] = HarnessC07Stream
	vsymHarnesses["HarnessC07Witness"] = HarnessC07Witness
}

// HarnessC07Stream: every byte string of length L sent to the connection loop: no panic escapes
// the connection goroutine, whatever was written is well-formed RESP, the connection ends closed.
func HarnessC07Stream() {
	L := vsymParamInt("L", 6)
	vsymUnwind(4*L + 280)
	server := NewServer()
	server.SetCommandHandler(&vhandler{mode: 0})
	in := vsymBytes("in", L)
	conn := newVconn(in)
	server.receive(conn, nil)
	_, ok := vStrictStream(conn.out)
	vsymAssert(ok, "reply-stream-well-formed")
	vsymAssert(conn.closed, "connection-closed-at-end")
	vsymAssert(len(server.Conns()) == 0, "registry-empty-at-end")
	if len(conn.out) > 0 {
		vsymCover("replied")
	}
	vsymCover("end")
}

// vechoHandler is a stateless handler (safe for concurrent use, as a real one must be): GET answers
// with the key itself, everything else OK — so a witness client's exact replies are known in advance.
type vechoHandler struct{ vhandler }

func (h *vechoHandler) Get(conn *Conn, key string) (*Message, error) {
	return NewBulkMessage(key), nil
}

// HarnessC07Witness: an offending client and a well-behaved witness are served concurrently by the
// real accept loop and connection goroutines (stub network). The offender sends one request of the
// given command with arbitrary short arguments and then misbehaves (garbage, disconnect or reset at
// any offset); the witness must get exactly its own replies, and a client arriving afterwards must
// still be accepted and served.
func HarnessC07Witness() {
	cmd := vsymParam("cmd")
	nargs := vsymChoice("nargs", vsymParamInt("maxargs", 1)+1)
	vsymSchedBound(vsymParamInt("preempt", 1))
	vsymUnwind(400)
	server := NewServer()
	h := &vechoHandler{}
	h.quiet = true
	server.SetCommandHandler(h)
	if err := server.Start(); err != nil {
		vsymFail("start-failed")
		return
	}
	elems := [][]byte{[]byte(cmd)}
	for i := 0; i < nargs; i++ {
		elems = append(elems, vsymBytes("arg", vsymChoice("arglen", vsymParamInt("maxlen", 1)+1)))
	}
	in := vReq(elems...)
	off := newVconn(in)
	switch vsymChoice("misbehaviour", 5) {
	case 0: // stays polite: closes at the request boundary
	case 1: // garbage after the request
		off.in = append(off.in, vsymBytes("garbage", 2)...)
		vsymCover("garbage")
	case 2: // half-close inside the request
		off.cut = vsymChoice("cut", len(in))
		vsymCover("cut")
	case 3: // reset inside the request
		off.cut = vsymChoice("cut", len(in))
		off.reset = true
		vsymCover("reset")
	case 4: // stops reading: every write fails
		off.failWrite = 0
		vsymCover("write-failure")
	}
	off.yield = true
	wit := newVconn(append(append(vReqS("ECHO", "hi"), vReqS("GET", "wkey")...), vReqS("PING")...))
	wit.yield = true
	vsymAssert(vDial(":6379", off), "offender-accepted")
	vsymAssert(vDial(":6379", wit), "witness-accepted")
	vsymQuiesce()
	vsymAssert(vBytesEq(wit.out, []byte("$2\r\nhi\r\n$4\r\nwkey\r\n+PONG\r\n")), "witness-gets-exactly-its-own-replies")
	_, ok := vStrictStream(off.out)
	vsymAssert(ok, "offender-gets-well-formed-replies-or-nothing")
	vsymAssert(off.closed && wit.closed, "both-connections-released")
	vsymAssert(len(server.Conns()) == 0, "registry-empty")
	late := newVconn(vReqS("PING"))
	vsymAssert(vDial(":6379", late), "server-still-accepts")
	vsymQuiesce()
	vsymAssert(vBytesEq(late.out, []byte("+PONG\r\n")), "later-client-served")
	server.Stop()
	vsymQuiesce()
	vsymCover("end")
}
