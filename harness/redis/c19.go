package redis

import (
	"crypto/tls"
	"crypto/x509"
	"crypto/x509/pkix"

	"github.com/cybergarage/go-redis/redis/auth"
)

func init() {
	vsymHarnesses["HarnessC19Endings"] = HarnessC19Endings
	vsymHarnesses["HarnessC19Stop"] = HarnessC19Stop
}

// HarnessC19Endings: however the connection ends, the socket is closed, the connection loop has
// returned (its goroutine ends) and the connection is gone from the registry.
func HarnessC19Endings() {
	vsymUnwind(400)
	server := NewServer()
	h := &vhandler{mode: 1}
	server.SetCommandHandler(h)
	var in []byte
	n := 1 + vsymChoice("requests", vsymParamInt("requests", 2))
	for i := 0; i < n; i++ {
		in = append(in, vReq(append([][]byte{[]byte("SET")}, vsymBytes("k", 1), vsymBytes("v", 1))...)...)
	}
	conn := newVconn(in)
	var state *tls.ConnectionState
	mode := vsymChoice("ending", 7)
	switch mode {
	case 0: // client closes at a request boundary
		vsymCover("eof-at-boundary")
	case 1: // client closes inside a request
		conn.cut = vsymChoice("cut", len(in))
		vsymCover("eof-inside-request")
	case 2: // reset
		conn.cut = vsymChoice("cut", len(in)+1)
		conn.reset = true
		vsymCover("reset")
	case 3: // QUIT
		in = append(in, vReqS("QUIT")...)
		in = append(in, vReqS("PING")...)
		conn.in = in
		vsymCover("quit")
	case 4: // protocol error
		in = append(in, vsymBytes("junk", 1+vsymChoice("junklen", vsymParamInt("junk", 2)))...)
		conn.in = in
		vsymCover("malformed")
	case 5: // the client stops reading: writes fail from reply k on
		conn.failWrite = vsymChoice("failwrite", n)
		vsymCover("write-failure")
	case 6: // rejected certificate
		server.AddAuthenticator(auth.NewCertificateAuthenticatorWith(auth.WithCommonName("client")))
		state = &tls.ConnectionState{PeerCertificates: []*x509.Certificate{{Subject: pkix.Name{CommonName: "intruder"}}}}
		vsymCover("rejected-certificate")
	}
	during := 0
	conn.onRead = func(c *vconn) {
		if k := len(server.Conns()); k > during {
			during = k
		}
	}
	server.receive(conn, state)
	// receive returned: the connection goroutine is done
	vsymAssert(conn.closed, "socket-closed")
	vsymAssert(len(server.Conns()) == 0, "gone-from-registry")
	if mode != 6 {
		vsymAssert(during == 1, "registered-while-served")
	}
	vsymCover("end")
}

// HarnessC19Stop: clients that are idle or in the middle of a pipeline when the server is stopped:
// after Stop their sockets are closed, their goroutines have ended and the registry is empty.
func HarnessC19Stop() {
	vsymSchedBound(vsymParamInt("preempt", 0))
	vsymUnwind(400)
	server := NewServer()
	h := &vhandler{mode: 0}
	server.SetCommandHandler(h)
	if err := server.Start(); err != nil {
		vsymFail("start-failed")
		return
	}
	n := 1 + vsymChoice("clients", vsymParamInt("clients", 2))
	var conns []*vconn
	for i := 0; i < n; i++ {
		var in []byte
		k := vsymChoice("sent", 1+vsymParamInt("maxsent", 2))
		for j := 0; j < k; j++ {
			in = append(in, vReqS("GET", "k")...)
		}
		if vsymChoice("partial", 2) == 1 {
			in = append(in, []byte("*2\r\n$3\r\nGET\r\n")...)
			vsymCover("mid-request")
		}
		c := newVconn(in)
		c.blockAtEnd = true
		if i == 0 && k > 0 && vsymChoice("stopped-reading", 2) == 1 {
			// the client does not read its replies: the server's first reply write stays blocked until the socket is closed
			c.blockWrite = true
			vsymCover("blocked-write")
		}
		if vsymChoice("close-reports-error", 2) == 1 {
			c.closeErr = true
			vsymCover("close-error")
		}
		conns = append(conns, c)
		vsymAssert(vDial(":6379", c), "accepted")
	}
	vsymQuiesce()
	vsymAssert(len(server.Conns()) == n, "registry-holds-the-served-connections")
	server.Stop()
	vsymQuiesce()
	for _, c := range conns {
		vsymAssert(c.closed, "client-socket-closed-by-stop")
	}
	vsymAssert(len(server.Conns()) == 0, "registry-empty-after-stop")
	vsymAssert(vsymGoroutines() == 1, "no-server-goroutine-remains")
	vsymCover("end")
}
