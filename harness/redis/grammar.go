package redis

import (
	"math"
	"strconv"
	"time"

	"github.com/cybergarage/go-redis/redis/glob"
)

// Independent grammar of the command surface: for each command an "intent" (typed argument
// values), its wire rendering, and the handler invocation(s) the intent must produce.

type gIntent struct {
	args      [][]byte // wire arguments after the command name
	want      []vcall  // expected handler calls
	unordered bool     // the order of want is not specified (key/value lists)
	system    bool     // answered by the framework itself (no handler call)
	expireRel bool     // want[0].times[0] is "now + ttl": checked as an interval
	ttl       int
}

var gStrMax = 2
var gIntDigits = 2
var gListMax = 2

func gStr(name string) []byte { return vsymBytes(name, vsymLen(name+".len", gStrMax)) }

// gInt draws a decimal integer digits-first: optional sign, 1..gIntDigits symbolic digits.
func gInt(name string) ([]byte, int) {
	neg := vsymChoice(name+".neg", 2) == 1
	n := 1 + vsymChoice(name+".digits", gIntDigits)
	var text []byte
	if neg {
		text = append(text, '-')
	}
	v := 0
	for i := 0; i < n; i++ {
		d := vsymByte(name)
		vsymAssume(d >= '0' && d <= '9')
		text = append(text, d)
		v = v*10 + int(d-'0')
	}
	if neg {
		v = -v
	}
	return text, v
}

// gPosInt draws a positive decimal integer (>= 1).
func gPosInt(name string) ([]byte, int) {
	n := 1 + vsymChoice(name+".digits", gIntDigits)
	var text []byte
	v := 0
	for i := 0; i < n; i++ {
		d := vsymByte(name)
		vsymAssume(d >= '0' && d <= '9')
		text = append(text, d)
		v = v*10 + int(d-'0')
	}
	vsymAssume(v >= 1)
	return text, v
}

// gFloat draws a float literal of 1..2 arbitrary bytes that parses.
func gFloat(name string) ([]byte, float64) {
	text := vsymBytes(name, 1+vsymChoice(name+".len", 2))
	f, err := strconv.ParseFloat(string(text), 64)
	vsymAssume(err == nil)
	return text, f
}

// gScoreBound draws a score range bound: a float literal with an optional "(" exclusive marker.
func gScoreBound(name string) ([]byte, float64, bool) {
	var text []byte
	var f float64
	if k := vsymChoice(name+".inf", 4); k > 0 {
		// the infinite bounds of Redis score ranges, with or without the exclusive marker
		text = []byte([]string{"inf", "+inf", "-inf"}[k-1])
		f = []float64{math.Inf(1), math.Inf(1), math.Inf(-1)}[k-1]
		vsymCover("infinite-bound")
	} else {
		text, f = gFloat(name)
	}
	if vsymChoice(name+".excl", 2) == 1 {
		return append([]byte{'('}, text...), f, true
	}
	return text, f, false
}

// gWord renders a keyword with an arbitrary letter case (one symbolic bit per letter).
func gWord(w string) []byte {
	out := make([]byte, len(w))
	for i := 0; i < len(w); i++ {
		c := w[i]
		if c >= 'A' && c <= 'Z' {
			// one symbolic case bit per letter, without forking
			c |= byte(vsymUintN("case", 1)) << 5
		}
		out[i] = c
	}
	return out
}

func gStrList(name string, min int) ([][]byte, []string) {
	n := min + vsymChoice(name+".n", gListMax-min+1)
	var bs [][]byte
	var ss []string
	for i := 0; i < n; i++ {
		b := gStr(name)
		bs = append(bs, b)
		ss = append(ss, string(b))
	}
	return bs, ss
}

func s1(b []byte) string { return string(b) }

// gDraw builds the intent for a command.
func gDraw(cmd string) (gIntent, bool) {
	var it gIntent
	key := gStr("key")
	k := s1(key)
	F := false
	switch cmd {
	case "GET", "TYPE", "TTL", "LLEN", "SMEMBERS", "HGETALL", "KEYS":
		m := map[string]string{"GET": "Get", "TYPE": "Type", "TTL": "TTL", "LLEN": "LLen", "SMEMBERS": "SMembers", "HGETALL": "HGetAll", "KEYS": "Keys"}[cmd]
		it.args = [][]byte{key}
		it.want = []vcall{{method: m, strs: []string{k}}}
	case "DEL", "EXISTS":
		bs, ss := gStrList("keys", 1)
		it.args = bs
		it.want = []vcall{{method: map[string]string{"DEL": "Del", "EXISTS": "Exists"}[cmd], strs: ss}}
	case "RENAME", "RENAMENX":
		nk := gStr("newkey")
		it.args = [][]byte{key, nk}
		it.want = []vcall{{method: "Rename", strs: []string{k, s1(nk)}, bools: []bool{cmd == "RENAMENX"}}}
	case "EXPIRE", "EXPIREAT":
		t, v := gInt("ttl")
		it.args = [][]byte{key, t}
		flags := []bool{F, F, F, F}
		if o := vsymChoice("expopt", 5); o > 0 {
			it.args = append(it.args, gWord([]string{"NX", "XX", "GT", "LT"}[o-1]))
			flags[o-1] = true
		}
		c := vcall{method: "Expire", strs: []string{k}, bools: flags}
		if cmd == "EXPIREAT" {
			c.times = []time.Time{time.Unix(int64(v), 0)}
		} else {
			it.expireRel = true
			it.ttl = v
			c.times = []time.Time{{}}
		}
		it.want = []vcall{c}
	case "SCAN":
		t, v := gInt("cursor")
		it.args = [][]byte{t}
		pat := DefaultScanPattern
		count := DefaultScanCount
		order := vsymChoice("scanopts", 5)
		addMatch := func() {
			pats := []string{"*", "a*", "?b", "x.y", "(", "[a", "a+|b$", ""}
			p := []byte(pats[vsymChoice("pattern", len(pats))])
			it.args = append(it.args, gWord("MATCH"), p)
			pat = string(p)
		}
		addCount := func() {
			ct, cv := gInt("count")
			it.args = append(it.args, gWord("COUNT"), ct)
			count = cv
		}
		switch order {
		case 1:
			addMatch()
		case 2:
			addCount()
		case 3:
			addMatch()
			addCount()
		case 4:
			addCount()
			addMatch()
		}
		it.want = []vcall{{method: "Scan", strs: []string{glob.MustCompile(pat).String()}, ints: []int{v, count, int(DefaultScanType)}}}
	case "SET":
		val := gStr("val")
		it.args = [][]byte{key, val}
		var ex, px time.Duration
		var exat, pxat time.Time
		nx, xx, keep, get := F, F, F, F
		// any subset of {NX|XX, one expiry, KEEPTTL, GET} in one of two orders
		ex1 := vsymChoice("nxxx", 3)
		exp := vsymChoice("expiry", 5)
		kp := vsymChoice("keepttl", 2) == 1
		gt := vsymChoice("get", 2) == 1
		var parts [][][]byte
		if ex1 == 1 {
			parts = append(parts, [][]byte{gWord("NX")})
			nx = true
		} else if ex1 == 2 {
			parts = append(parts, [][]byte{gWord("XX")})
			xx = true
		}
		if exp > 0 {
			t, v := gPosInt("expire")
			name := []string{"EX", "PX", "EXAT", "PXAT"}[exp-1]
			parts = append(parts, [][]byte{gWord(name), t})
			switch exp {
			case 1:
				ex = time.Duration(v) * time.Second
			case 2:
				px = time.Duration(v) * time.Millisecond
			case 3:
				exat = time.Unix(int64(v), 0)
			case 4:
				pxat = time.UnixMilli(int64(v))
			}
		}
		if kp {
			parts = append(parts, [][]byte{gWord("KEEPTTL")})
			keep = true
		}
		if gt {
			parts = append(parts, [][]byte{gWord("GET")})
			get = true
		}
		if len(parts) > 1 && vsymChoice("reverse", 2) == 1 {
			for i, j := 0, len(parts)-1; i < j; i, j = i+1, j-1 {
				parts[i], parts[j] = parts[j], parts[i]
			}
		}
		for _, p := range parts {
			it.args = append(it.args, p...)
		}
		it.want = []vcall{{method: "Set", strs: []string{k, s1(val)}, durs: []time.Duration{ex, px}, times: []time.Time{exat, pxat}, bools: []bool{nx, xx, keep, get}}}
	case "SETEX":
		t, v := gPosInt("seconds")
		val := gStr("val")
		it.args = [][]byte{key, t, val}
		it.want = []vcall{{method: "Set", strs: []string{k, s1(val)}, durs: []time.Duration{time.Duration(v) * time.Second, 0}, times: []time.Time{{}, {}}, bools: []bool{F, F, F, F}}}
	case "GETSET", "SETNX":
		val := gStr("val")
		it.args = [][]byte{key, val}
		it.want = []vcall{{method: "Set", strs: []string{k, s1(val)}, durs: []time.Duration{0, 0}, times: []time.Time{{}, {}}, bools: []bool{cmd == "SETNX", F, F, cmd == "GETSET"}}}
	case "MSET", "HMSET":
		var prefix []string
		it.args = nil
		if cmd == "HMSET" {
			it.args = [][]byte{key}
			prefix = []string{k}
		}
		n := 1 + vsymChoice("pairs", gListMax)
		var keys, vals []string
		for i := 0; i < n; i++ {
			kk, vv := gStr("k"), gStr("v")
			it.args = append(it.args, kk, vv)
			keys = append(keys, s1(kk))
			vals = append(vals, s1(vv))
		}
		// the last value given for a key wins; one call per distinct key
		for i := 0; i < n; i++ {
			dupLater := false
			for j := i + 1; j < n; j++ {
				if keys[j] == keys[i] {
					dupLater = true
				}
			}
			if dupLater {
				continue
			}
			if cmd == "MSET" {
				it.want = append(it.want, vcall{method: "Set", strs: []string{keys[i], vals[i]}, durs: []time.Duration{0, 0}, times: []time.Time{{}, {}}, bools: []bool{F, F, F, F}})
			} else {
				it.want = append(it.want, vcall{method: "HSet", strs: append(append([]string{}, prefix...), keys[i], vals[i]), bools: []bool{F}})
			}
		}
		it.unordered = true
	case "MGET":
		bs, ss := gStrList("keys", 1)
		it.args = bs
		for _, s := range ss {
			it.want = append(it.want, vcall{method: "Get", strs: []string{s}})
		}
	case "HMGET":
		bs, ss := gStrList("fields", 1)
		it.args = append([][]byte{key}, bs...)
		for _, s := range ss {
			it.want = append(it.want, vcall{method: "HGet", strs: []string{k, s}})
		}
	case "HDEL", "SADD", "SREM", "ZREM":
		bs, ss := gStrList("items", 1)
		it.args = append([][]byte{key}, bs...)
		it.want = []vcall{{method: map[string]string{"HDEL": "HDel", "SADD": "SAdd", "SREM": "SRem", "ZREM": "ZRem"}[cmd], strs: append([]string{k}, ss...)}}
	case "LPUSH", "RPUSH", "LPUSHX", "RPUSHX":
		bs, ss := gStrList("elems", 1)
		it.args = append([][]byte{key}, bs...)
		m := "LPush"
		if cmd[0] == 'R' {
			m = "RPush"
		}
		it.want = []vcall{{method: m, strs: append([]string{k}, ss...), bools: []bool{len(cmd) == 6}}}
	case "HGET", "ZSCORE":
		f := gStr("field")
		it.args = [][]byte{key, f}
		it.want = []vcall{{method: map[string]string{"HGET": "HGet", "ZSCORE": "ZScore"}[cmd], strs: []string{k, s1(f)}}}
	case "HSET", "HSETNX":
		f, v := gStr("field"), gStr("val")
		it.args = [][]byte{key, f, v}
		it.want = []vcall{{method: "HSet", strs: []string{k, s1(f), s1(v)}, bools: []bool{cmd == "HSETNX"}}}
	case "LINDEX":
		t, v := gInt("index")
		it.args = [][]byte{key, t}
		it.want = []vcall{{method: "LIndex", strs: []string{k}, ints: []int{v}}}
	case "LRANGE":
		t1, v1 := gInt("start")
		t2, v2 := gInt("stop")
		it.args = [][]byte{key, t1, t2}
		it.want = []vcall{{method: "LRange", strs: []string{k}, ints: []int{v1, v2}}}
	case "LPOP", "RPOP":
		it.args = [][]byte{key}
		cnt := 1
		if vsymChoice("hascount", 2) == 1 {
			t, v := gInt("count")
			it.args = append(it.args, t)
			cnt = v
		}
		it.want = []vcall{{method: map[string]string{"LPOP": "LPop", "RPOP": "RPop"}[cmd], strs: []string{k}, ints: []int{cnt}}}
	case "ZADD":
		it.args = [][]byte{key}
		flags := []bool{F, F, F, F, F, F} // XX NX LT GT CH INCR
		names := []string{"XX", "NX", "LT", "GT", "CH", "INCR"}
		nopt := vsymChoice("nopts", 3)
		for i := 0; i < nopt; i++ {
			o := vsymChoice("zopt", 6)
			it.args = append(it.args, gWord(names[o]))
			flags[o] = true
		}
		n := 1 + vsymChoice("members", gListMax)
		c := vcall{method: "ZAdd", strs: []string{k}, bools: flags}
		for i := 0; i < n; i++ {
			ft, fv := gFloat("score")
			m := gStr("member")
			it.args = append(it.args, ft, m)
			c.flts = append(c.flts, fv)
			c.strs = append(c.strs, s1(m))
		}
		it.want = []vcall{c}
	case "ZINCRBY":
		ft, fv := gFloat("inc")
		m := gStr("member")
		it.args = [][]byte{key, ft, m}
		it.want = []vcall{{method: "ZIncBy", strs: []string{k, s1(m)}, flts: []float64{fv}}}
	case "ZRANGE", "ZRANGEBYSCORE", "ZREVRANGEBYSCORE":
		t1, f1, e1 := gScoreBound("min")
		t2, f2, e2 := gScoreBound("max")
		byscore, rev, withscores := cmd != "ZRANGE", F, F
		off, cnt := 0, -1
		if cmd == "ZREVRANGEBYSCORE" {
			it.args = [][]byte{key, t2, t1}
		} else {
			it.args = [][]byte{key, t1, t2}
		}
		if cmd == "ZRANGE" && vsymChoice("byscore", 2) == 1 {
			it.args = append(it.args, gWord("BYSCORE"))
			byscore = true
		}
		flagBYSCORE := byscore && cmd == "ZRANGE"
		if cmd == "ZRANGE" && vsymChoice("rev", 2) == 1 {
			it.args = append(it.args, gWord("REV"))
			rev = true
		}
		if vsymChoice("limit", 2) == 1 {
			ot, ov := gInt("offset")
			ct, cv := gInt("lcount")
			it.args = append(it.args, gWord("LIMIT"), ot, ct)
			off, cnt = ov, cv
		}
		if vsymChoice("withscores", 2) == 1 {
			it.args = append(it.args, gWord("WITHSCORES"))
			withscores = true
		}
		if byscore {
			it.want = []vcall{{method: "ZRangeByScore", strs: []string{k}, flts: []float64{f1, f2}, ints: []int{off, cnt}, bools: []bool{flagBYSCORE, F, rev, withscores, e1, e2}}}
		} else {
			vsymAssume(!e1 && !e2) // index ranges carry no exclusive marker
			it.want = []vcall{{method: "ZRange", strs: []string{k}, ints: []int{int(f1), int(f2), off, cnt}, bools: []bool{F, F, rev, withscores, F, F}}}
		}
	case "PING", "ECHO", "SELECT", "QUIT":
		it.system = true
		return it, true
	default:
		return it, false
	}
	return it, true
}

func gStrsEq(a, b []string) bool {
	if len(a) != len(b) {
		return false
	}
	ok := true
	for i := range a {
		if a[i] != b[i] {
			ok = false
		}
	}
	return ok
}

// gCallEq compares a recorded call with an expected one (all argument kinds).
func gCallEq(got, want *vcall) bool {
	if got.method != want.method {
		return false
	}
	ok := gStrsEq(got.strs, want.strs)
	if len(got.ints) != len(want.ints) || len(got.flts) != len(want.flts) || len(got.bools) != len(want.bools) || len(got.durs) != len(want.durs) || len(got.times) != len(want.times) {
		return false
	}
	for i := range got.ints {
		if got.ints[i] != want.ints[i] {
			ok = false
		}
	}
	for i := range got.flts {
		if got.flts[i] != want.flts[i] {
			ok = false
		}
	}
	for i := range got.bools {
		if got.bools[i] != want.bools[i] {
			ok = false
		}
	}
	for i := range got.durs {
		if got.durs[i] != want.durs[i] {
			ok = false
		}
	}
	for i := range got.times {
		if !got.times[i].Equal(want.times[i]) {
			ok = false
		}
	}
	return ok
}
