package redis

import "crypto/tls"

func init() {
	vsymHarnesses["HarnessC15Lifecycle"] = HarnessC15Lifecycle
}

// HarnessC15Lifecycle: a sequence of Start / Stop / Restart calls on the stub network with clients
// that connect at arbitrary moments (their own goroutines). After every call that returns nil the
// promised state is checked once the system is quiescent.
func HarnessC15Lifecycle() {
	seq := vsymParam("seq") // letters: S Start, T Stop, R Restart, D plain port disabled by configuration while running
	vsymTag("seq", seq)
	vsymSchedBound(vsymParamInt("preempt", 1))
	vsymUnwind(400)
	server := NewServer()
	server.SetCommandHandler(&vhandler{mode: 0, quiet: true})
	ports := []string{":6379"}
	if vsymParamInt("tls", 0) == 1 {
		server.SetTLSPort(6380)
		server.SetTLSConfig(&tls.Config{})
		ports = append(ports, ":6380")
	}
	opened := append([]string{}, ports...) // every port a listener was ever opened on: all must be free after Stop
	nclients := vsymParamInt("clients", 1)
	type client struct {
		conn     *vconn
		dialed   bool
		accepted bool
		inCall   bool // dialled while a lifecycle call was executing
		done     bool
	}
	inCall := false
	running := false
	begun := make([]bool, len(seq))
	clients := make([]*client, nclients)
	for i := range clients {
		cl := &client{conn: newVconn(vReqS("PING"))}
		cl.conn.blockAtEnd = true
		clients[i] = cl
		when := vsymChoice("client-arrives-during-call", len(seq))
		go func() {
			// the client shows up while (or after) lifecycle call number `when` executes
			vsymAwait(&begun[when])
			cl.inCall = inCall
			cl.dialed = true
			cl.accepted = vDial(":6379", cl.conn)
			vsymSignal(&cl.done)
		}()
	}
	probe := func(label string) {
		// on every enabled port a fresh client is accepted and served by a loop waiting on the current listener
		for _, port := range ports {
			c := newVconn(vReqS("PING"))
			ok := vDial(port, c)
			vsymAssert(ok, "port-bound-after-"+label)
			vsymQuiesce()
			vsymAssert(vBytesEq(c.out, []byte("+PONG\r\n")), "client-served-after-"+label)
			l := vPorts[port]
			vsymAssert(l != nil && !l.closed && l.waiting == 1, "accept-loop-waiting-on-current-listener-after-"+label)
		}
	}
	for i := 0; i < len(seq); i++ {
		var err error
		inCall = true
		vsymSignal(&begun[i])
		switch seq[i] {
		case 'S':
			err = server.Start()
		case 'T':
			err = server.Stop()
		case 'R':
			err = server.Restart()
		case 'D':
			// the configuration changes while the server runs (SetPort / CONFIG SET port 0): the
			// listener opened by Start stays the server's to close
			server.SetPort(0)
			ports = ports[1:]
			vsymCover("port-disabled-while-running")
		}
		inCall = false
		if err != nil {
			vsymCover("call-failed")
			vsymAssert(seq[i] == 'S' && running, "lifecycle-call-fails-only-for-start-on-a-running-server")
			continue
		}
		switch seq[i] {
		case 'S', 'R':
			running = true
			vsymQuiesce()
			probe(string(seq[i : i+1]))
			for _, port := range opened {
				enabled := false
				for _, q := range ports {
					if q == port {
						enabled = true
					}
				}
				if !enabled {
					l := vPorts[port]
					vsymAssert(l == nil || l.closed, "disabled-port-released-by-restart")
				}
			}
			// while running the registry holds exactly the connections being served
			served := 0
			for _, c := range server.Conns() {
				if !c.Conn.(*vconn).closed {
					served++
				}
			}
			vsymAssert(served == len(server.Conns()), "registry-holds-only-live-connections")
			vsymCover("started")
		case 'T':
			running = false
			if vsymGoroutines() > 1+nclients {
				vsymTag("finding", "stop-returns-before-goroutines-end")
				vsymFail("no-server-goroutine-remains-when-stop-returns")
			}
			vsymQuiesce()
			for _, port := range opened {
				l := vPorts[port]
				vsymAssert(l == nil || l.closed, "port-can-be-bound-again-after-stop")
			}
			vsymAssert(len(server.Conns()) == 0, "registry-empty-after-stop")
			for _, cl := range clients {
				if cl.accepted && !cl.inCall {
					vsymAssert(cl.conn.closed, "client-connection-closed-by-stop")
				}
				if cl.accepted && cl.inCall && !cl.conn.closed {
					vsymTag("finding", "client-accepted-during-stop-survives")
					vsymFail("client-accepted-while-stop-runs-is-closed")
				}
			}
			vsymCover("stopped")
		}
	}
	vsymCover("end")
}
