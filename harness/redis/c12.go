package redis

import (
	"math"
	"strconv"
)

func init() {
	vsymHarnesses["HarnessC12Derived"] = HarnessC12Derived
}

// vstore is a small reference store whose primitive operations behave like Redis; it is the
// handler under the framework's derived commands.
type vstore struct {
	vhandler
	keys  []string
	vals  []string
	hkeys []string // one hash "h": field list
	hvals []string
	smem  []string  // one set "s"
	zmem  []string  // one sorted set "z", ascending by score
	zscr  []float64
}

func (s *vstore) find(key string) int {
	for i, k := range s.keys {
		if k == key {
			return i
		}
	}
	return -1
}

func (s *vstore) Get(conn *Conn, key string) (*Message, error) {
	if i := s.find(key); i >= 0 {
		return NewBulkMessage(s.vals[i]), nil
	}
	return NewNilMessage(), nil
}

func (s *vstore) Set(conn *Conn, key string, val string, opt SetOption) (*Message, error) {
	i := s.find(key)
	if opt.NX && i >= 0 {
		return NewIntegerMessage(0), nil
	}
	if i >= 0 {
		s.vals[i] = val
	} else {
		s.keys = append(s.keys, key)
		s.vals = append(s.vals, val)
	}
	if opt.NX {
		return NewIntegerMessage(1), nil
	}
	return NewOKMessage(), nil
}

func (s *vstore) hfind(f string) int {
	for i, k := range s.hkeys {
		if k == f {
			return i
		}
	}
	return -1
}

func (s *vstore) HGet(conn *Conn, key string, field string) (*Message, error) {
	if key != "h" {
		return NewNilMessage(), nil
	}
	if i := s.hfind(field); i >= 0 {
		return NewBulkMessage(s.hvals[i]), nil
	}
	return NewNilMessage(), nil
}

func (s *vstore) HSet(conn *Conn, key string, field string, val string, opt HSetOption) (*Message, error) {
	if i := s.hfind(field); i >= 0 {
		s.hvals[i] = val
		return NewIntegerMessage(0), nil
	}
	s.hkeys = append(s.hkeys, field)
	s.hvals = append(s.hvals, val)
	return NewIntegerMessage(1), nil
}

func (s *vstore) HGetAll(conn *Conn, key string) (*Message, error) {
	m := NewArrayMessage()
	if key != "h" {
		return m, nil
	}
	for i := range s.hkeys {
		m.Append(NewBulkMessage(s.hkeys[i]))
		m.Append(NewBulkMessage(s.hvals[i]))
	}
	return m, nil
}

func (s *vstore) SMembers(conn *Conn, key string) (*Message, error) {
	if key != "s" {
		return NewArrayMessage(), nil
	}
	return NewStringArrayMessage(s.smem), nil
}

// zrange: Redis index semantics over the ascending order.
func (s *vstore) zidx(start, stop int) (int, int, bool) {
	n := len(s.zmem)
	if start < 0 {
		start += n
	}
	if stop < 0 {
		stop += n
	}
	if start < 0 {
		start = 0
	}
	if start > stop || start >= n {
		return 0, 0, false
	}
	if stop >= n {
		stop = n - 1
	}
	return start, stop, true
}

func (s *vstore) ZRange(conn *Conn, key string, start int, stop int, opt ZRangeOption) (*Message, error) {
	m := NewArrayMessage()
	if key != "z" {
		return m, nil
	}
	a, b, ok := s.zidx(start, stop)
	if !ok {
		return m, nil
	}
	for i := a; i <= b; i++ {
		m.Append(NewBulkMessage(s.zmem[i]))
		if opt.WITHSCORES {
			m.Append(NewFloatMessage(s.zscr[i]))
		}
	}
	return m, nil
}

func (s *vstore) ZRangeByScore(conn *Conn, key string, min float64, max float64, opt ZRangeOption) (*Message, error) {
	m := NewArrayMessage()
	if key != "z" {
		return m, nil
	}
	for i := range s.zmem {
		sc := s.zscr[i]
		if sc < min || (opt.MINEXCLUSIVE && sc == min) || sc > max || (opt.MAXEXCLUSIVE && sc == max) {
			continue
		}
		m.Append(NewBulkMessage(s.zmem[i]))
		if opt.WITHSCORES {
			m.Append(NewFloatMessage(s.zscr[i]))
		}
	}
	return m, nil
}

func vInt(n int) []byte { return append(append([]byte{':'}, strconv.Itoa(n)...), '\r', '\n') }

func vArrayOf(items [][]byte) []byte {
	out := append([]byte{'*'}, vItoa(len(items))...)
	out = append(out, '\r', '\n')
	for _, it := range items {
		out = append(out, it...)
	}
	return out
}

// HarnessC12Derived: each command the framework derives from primitive handler operations is run
// against the reference store in a symbolic state; reply and final store must equal the Redis model.
func HarnessC12Derived() {
	fam := vsymParam("family")
	vsymTag("family", fam)
	vsymUnwind(400)
	server := NewServer()
	st := &vstore{}
	server.SetCommandHandler(st)
	run := func(args ...[]byte) []byte {
		conn := newVconn(vReq(args...))
		server.receive(conn, nil)
		return conn.out
	}
	B := func(s string) []byte { return []byte(s) }
	switch fam {
	case "getrange":
		L := vsymLen("len", vsymParamInt("maxlen", 4))
		val := vsymBytes("val", L)
		present := vsymChoice("present", 2) == 1
		if present {
			st.keys, st.vals = []string{"k"}, []string{string(val)}
		} else {
			L = 0
		}
		var ts, te []byte
		var s, e int
		if vsymChoice("intkind", 2) == 0 {
			ts, s = gInt("start")
			te, e = gInt("end")
		} else {
			bi := []int{0, -1, 1, math.MaxInt64, math.MinInt64, math.MaxInt64 - 1, math.MinInt64 + 1, 2147483648}
			s = bi[vsymChoice("bstart", len(bi))]
			e = bi[vsymChoice("bend", len(bi))]
			ts, te = B(strconv.Itoa(s)), B(strconv.Itoa(e))
			vsymCover("boundary")
		}
		name := []string{"GETRANGE", "SUBSTR"}[vsymChoice("name", 2)]
		out := run(B(name), B("k"), ts, te)
		// Redis: getrangeCommand
		var want []byte
		if L > 0 && !(s < 0 && e < 0 && s > e) {
			if s < 0 {
				s += L
			}
			if e < 0 {
				e += L
			}
			if s < 0 {
				s = 0
			}
			if e < 0 {
				e = 0
			}
			if e >= L {
				e = L - 1
			}
			if s <= e {
				want = val[s : e+1]
				vsymCover("non-empty-range")
			}
		}
		vsymAssert(vBytesEq(out, vBulk(want)), "getrange-follows-redis-index-clamping")
	case "counter":
		// stored: absent | decimal text of a symbolic int | non-integer bytes
		var cur int
		stored := ""
		kind := vsymChoice("stored", 3)
		switch kind {
		case 1:
			t, v := gInt("cur")
			st.keys, st.vals = []string{"k"}, []string{string(t)}
			cur = v
		case 2:
			// any non-integer text, the empty string included (an existing key holding "" is not an absent key)
			junk := vsymBytes("junk", vsymChoice("junklen", 3))
			vsymAssume(!gIsDecimal(junk))
			st.keys, st.vals = []string{"k"}, []string{string(junk)}
			stored = string(junk)
		}
		op := vsymChoice("op", 4)
		var out []byte
		d := 1
		switch op {
		case 0:
			out = run(B("INCR"), B("k"))
		case 1:
			out = run(B("DECR"), B("k"))
			d = -1
		case 2, 3:
			var t []byte
			var v int
			if vsymChoice("incrkind", 2) == 0 {
				t, v = gInt("by")
			} else {
				bi := []int{math.MaxInt64, math.MinInt64, math.MaxInt64 - 1, math.MinInt64 + 1}
				v = bi[vsymChoice("bby", len(bi))]
				t = B(strconv.Itoa(v))
				vsymCover("boundary")
			}
			if op == 2 {
				out = run(B("INCRBY"), B("k"), t)
				d = v
			} else {
				out = run(B("DECRBY"), B("k"), t)
				if v == math.MinInt64 {
					vsymAssert(len(out) > 0 && out[0] == '-', "decrement-overflow-rejected")
					return
				}
				d = -v
			}
		}
		if kind == 2 {
			vsymAssert(len(out) > 0 && out[0] == '-', "non-integer-value-rejected")
			vsymAssert(len(st.keys) == 1 && st.vals[0] == stored, "store-unchanged-after-rejection")
			vsymCover("non-integer")
			return
		}
		overflow := (d > 0 && cur > math.MaxInt64-d) || (d < 0 && cur < math.MinInt64-d)
		if overflow {
			vsymAssert(len(out) > 0 && out[0] == '-', "overflow-rejected")
			vsymCover("overflow")
			return
		}
		vsymAssert(vBytesEq(out, vInt(cur+d)), "counter-reply-is-new-value")
		i := st.find("k")
		vsymAssert(i >= 0 && st.vals[i] == strconv.Itoa(cur+d), "counter-stored-as-decimal")
	case "string":
		present := vsymChoice("present", 2) == 1
		old := vsymBytes("old", vsymLen("oldlen", 2))
		if present {
			st.keys, st.vals = []string{"k"}, []string{string(old)}
		} else {
			old = nil
		}
		switch vsymChoice("op", 3) {
		case 0:
			add := vsymBytes("add", vsymLen("addlen", 2))
			out := run(B("APPEND"), B("k"), add)
			vsymAssert(vBytesEq(out, vInt(len(old)+len(add))), "append-replies-new-length")
			i := st.find("k")
			vsymAssert(i >= 0 && st.vals[i] == string(old)+string(add), "append-stores-concatenation")
		case 1:
			out := run(B("STRLEN"), B("k"))
			vsymAssert(vBytesEq(out, vInt(len(old))), "strlen-is-length-or-zero")
		case 2:
			out := run(B("ECHO"), old)
			vsymAssert(vBytesEq(out, vBulk(old)), "echo-returns-argument")
		}
	case "multi":
		// MSET / MSETNX / MGET over keys drawn from {a,b}
		pool := []string{"a", "b"}
		switch vsymChoice("a-present", 3) {
		case 1:
			st.keys, st.vals = append(st.keys, "a"), append(st.vals, "A")
		case 2:
			// an existing key whose value is the empty string
			st.keys, st.vals = append(st.keys, "a"), append(st.vals, "")
			vsymCover("empty-value")
		}
		if vsymChoice("b-present", 2) == 1 {
			st.keys, st.vals = append(st.keys, "b"), append(st.vals, "B")
		}
		before := map[string]string{}
		for i, k := range st.keys {
			before[k] = st.vals[i]
		}
		switch vsymChoice("op", 3) {
		case 0, 1:
			n := 1 + vsymChoice("pairs", 2)
			args := [][]byte{B("MSET")}
			model := map[string]string{}
			for k, v := range before {
				model[k] = v
			}
			anyExists := false
			var ks, vs []string
			for i := 0; i < n; i++ {
				k := pool[vsymChoice("key", 2)]
				v := string(vsymBytes("val", 1))
				args = append(args, B(k), B(v))
				ks, vs = append(ks, k), append(vs, v)
				if _, ok := before[k]; ok {
					anyExists = true
				}
			}
			nx := vsymChoice("nx", 2) == 1
			if nx {
				args[0] = B("MSETNX")
			}
			out := run(args...)
			if nx && anyExists {
				vsymAssert(vBytesEq(out, vInt(0)), "msetnx-replies-0-when-a-key-exists")
				for k, v := range before {
					i := st.find(k)
					vsymAssert(i >= 0 && st.vals[i] == v, "msetnx-is-all-or-nothing")
				}
				vsymAssert(len(st.keys) == len(before), "msetnx-adds-nothing")
				vsymCover("msetnx-refused")
				return
			}
			for i := range ks {
				model[ks[i]] = vs[i]
			}
			if nx {
				vsymAssert(vBytesEq(out, vInt(1)), "msetnx-replies-1")
			} else {
				vsymAssert(vBytesEq(out, B("+OK\r\n")), "mset-replies-ok")
			}
			for k, v := range model {
				i := st.find(k)
				vsymAssert(i >= 0 && st.vals[i] == v, "last-value-given-for-a-key-wins")
			}
			vsymAssert(len(st.keys) == len(model), "no-extra-keys")
		case 2:
			n := 1 + vsymChoice("keys", 3)
			args := [][]byte{B("MGET")}
			var items [][]byte
			for i := 0; i < n; i++ {
				k := []string{"a", "b", "c"}[vsymChoice("key", 3)]
				args = append(args, B(k))
				if v, ok := before[k]; ok {
					items = append(items, vBulk(B(v)))
				} else {
					items = append(items, B("$-1\r\n"))
				}
			}
			out := run(args...)
			vsymAssert(vBytesEq(out, vArrayOf(items)), "mget-replies-in-request-order")
		}
	case "seq":
		// short programs of derived commands on one server: state a command leaves behind in the
		// framework (option structs, cursors) must not leak into the next command
		model := map[string]string{}
		for _, k := range []string{"a", "b"} {
			switch vsymChoice(k+"-initial", 3) {
			case 1:
				model[k] = "5"
			case 2:
				model[k] = ""
			}
			if v, ok := model[k]; ok {
				st.keys, st.vals = append(st.keys, k), append(st.vals, v)
			}
		}
		bulkOrNil := func(k string) []byte {
			if v, ok := model[k]; ok {
				return vBulk(B(v))
			}
			return B("$-1\r\n")
		}
		steps := vsymParamInt("steps", 2)
		for i := 0; i < steps; i++ {
			x := string(vsymBytes("x", 1))
			var out, want []byte
			switch vsymChoice("op", 8) {
			case 0:
				y := string(vsymBytes("y", 1))
				out = run(B("MSET"), B("a"), B(x), B("b"), B(y))
				model["a"], model["b"] = x, y
				want = B("+OK\r\n")
			case 1, 2:
				k := []string{"a", "b"}[vsymChoice("nxkey", 2)]
				out = run(B("MSETNX"), B(k), B(x))
				if _, ok := model[k]; ok {
					want = vInt(0)
				} else {
					model[k] = x
					want = vInt(1)
				}
			case 3:
				out = run(B("INCR"), B("a"))
				v, ok := model["a"]
				n, err := strconv.Atoi(v)
				if ok && err != nil {
					vsymAssert(len(out) > 0 && out[0] == '-', "seq-counter-rejects-non-integer")
					continue
				}
				model["a"] = strconv.Itoa(n + 1)
				want = vInt(n + 1)
			case 4:
				out = run(B("APPEND"), B("a"), B(x))
				model["a"] = model["a"] + x
				want = vInt(len(model["a"]))
			case 5:
				out = run(B("MGET"), B("a"), B("b"))
				want = vArrayOf([][]byte{bulkOrNil("a"), bulkOrNil("b")})
			case 6:
				out = run(B("STRLEN"), B("b"))
				want = vInt(len(model["b"]))
			case 7:
				out = run(B("GETRANGE"), B("a"), B("0"), B("-1"))
				want = vBulk(B(model["a"]))
			}
			vsymAssert(vBytesEq(out, want), "seq-reply-equals-redis-model")
			vsymAssert(len(st.keys) == len(model), "seq-no-extra-or-missing-keys")
			for k, v := range model {
				j := st.find(k)
				vsymAssert(j >= 0 && st.vals[j] == v, "seq-store-equals-redis-model")
			}
		}
	case "hash":
		nf := vsymLen("fields", 2)
		names := []string{"f", "g"}
		for i := 0; i < nf; i++ {
			st.hkeys = append(st.hkeys, names[i])
			st.hvals = append(st.hvals, string(vsymBytes("hval", vsymLen("hvallen", 2))))
		}
		field := []string{"f", "g", "x"}[vsymChoice("field", 3)]
		idx := st.hfind(field)
		switch vsymChoice("op", 7) {
		case 0:
			out := run(B("HEXISTS"), B("h"), B(field))
			want := 0
			if idx >= 0 {
				want = 1
			}
			vsymAssert(vBytesEq(out, vInt(want)), "hexists")
		case 1:
			out := run(B("HSTRLEN"), B("h"), B(field))
			want := 0
			if idx >= 0 {
				want = len(st.hvals[idx])
			}
			vsymAssert(vBytesEq(out, vInt(want)), "hstrlen")
		case 2:
			out := run(B("HLEN"), B("h"))
			vsymAssert(vBytesEq(out, vInt(nf)), "hlen")
		case 3:
			out := run(B("HKEYS"), B("h"))
			var items [][]byte
			for i := 0; i < nf; i++ {
				items = append(items, vBulk(B(names[i])))
			}
			vsymAssert(vBytesEq(out, vArrayOf(items)), "hkeys-pairs-with-hgetall-order")
		case 4:
			out := run(B("HVALS"), B("h"))
			var items [][]byte
			for i := 0; i < nf; i++ {
				items = append(items, vBulk(B(st.hvals[i])))
			}
			vsymAssert(vBytesEq(out, vArrayOf(items)), "hvals-pairs-with-hgetall-order")
		case 5:
			f2 := []string{"f", "g", "x"}[vsymChoice("field2", 3)]
			out := run(B("HMGET"), B("h"), B(field), B(f2))
			var items [][]byte
			for _, f := range []string{field, f2} {
				if i := st.hfind(f); i >= 0 {
					items = append(items, vBulk(B(st.hvals[i])))
				} else {
					items = append(items, B("$-1\r\n"))
				}
			}
			vsymAssert(vBytesEq(out, vArrayOf(items)), "hmget-replies-in-request-order")
		case 6:
			v1 := string(vsymBytes("v1", 1))
			v2 := string(vsymBytes("v2", 1))
			f2 := []string{"f", "g", "x"}[vsymChoice("field2", 3)]
			out := run(B("HMSET"), B("h"), B(field), B(v1), B(f2), B(v2))
			vsymAssert(vBytesEq(out, B("+OK\r\n")), "hmset-replies-ok")
			i2 := st.hfind(f2)
			vsymAssert(i2 >= 0 && st.hvals[i2] == v2, "hmset-last-value-wins")
			if field != f2 {
				i1 := st.hfind(field)
				vsymAssert(i1 >= 0 && st.hvals[i1] == v1, "hmset-stores-every-pair")
			}
		}
	case "set":
		n := vsymLen("members", 3)
		all := []string{"a", "b", "c"}
		st.smem = all[:n]
		switch vsymChoice("op", 3) {
		case 0:
			out := run(B("SCARD"), B("s"))
			vsymAssert(vBytesEq(out, vInt(n)), "scard")
		case 1:
			m := []string{"a", "b", "c", "d"}[vsymChoice("member", 4)]
			out := run(B("SISMEMBER"), B("s"), B(m))
			want := 0
			for _, x := range st.smem {
				if x == m {
					want = 1
				}
			}
			vsymAssert(vBytesEq(out, vInt(want)), "sismember")
		case 2:
			st.zmem, st.zscr = all[:n], []float64{1, 2, 3}[:n]
			out := run(B("ZCARD"), B("z"))
			vsymAssert(vBytesEq(out, vInt(n)), "zcard")
		}
	case "zrev":
		n := vsymLen("members", vsymParamInt("maxmembers", 4))
		all := []string{"a", "b", "c", "d", "e"}
		scores := []float64{1, 2, 3, 4, 5}
		st.zmem, st.zscr = all[:n], scores[:n]
		ts, s := gInt("start")
		te, e := gInt("stop")
		withscores := vsymChoice("withscores", 2) == 1
		args := [][]byte{B("ZREVRANGE"), B("z"), ts, te}
		if withscores {
			args = append(args, gWord("WITHSCORES"))
		}
		out := run(args...)
		// Redis: indexes refer to the descending order
		if s < 0 {
			s += n
		}
		if e < 0 {
			e += n
		}
		if s < 0 {
			s = 0
		}
		var items [][]byte
		if !(s > e || s >= n) {
			if e >= n {
				e = n - 1
			}
			for i := s; i <= e; i++ {
				j := n - 1 - i
				items = append(items, vBulk(B(all[j])))
				if withscores {
					items = append(items, vBulk(B(strconv.FormatFloat(scores[j], 'g', -1, 64))))
				}
			}
			vsymCover("non-empty-range")
		}
		vsymAssert(vBytesEq(out, vArrayOf(items)), "zrevrange-is-the-descending-slice-with-pairs-intact")
	case "zrevscore":
		n := vsymLen("members", 3)
		all := []string{"a", "b", "c"}
		scores := []float64{1, 2, 3}
		st.zmem, st.zscr = all[:n], scores[:n]
		// concrete bounds (symbolic float literals are covered for argument passing by C05)
		toks := []string{"0", "1", "2", "3", "(1", "(2", "(3", "1.5", "-inf", "+inf", "9"}
		vals := []float64{0, 1, 2, 3, 1, 2, 3, 1.5, math.Inf(-1), math.Inf(1), 9}
		excl := []bool{false, false, false, false, true, true, true, false, false, false, false}
		ia, ib := vsymChoice("max", len(toks)), vsymChoice("min", len(toks))
		tmax, fmax, emax := B(toks[ia]), vals[ia], excl[ia]
		tmin, fmin, emin := B(toks[ib]), vals[ib], excl[ib]
		withscores := vsymChoice("withscores", 2) == 1
		args := [][]byte{B("ZREVRANGEBYSCORE"), B("z"), tmax, tmin}
		if withscores {
			args = append(args, gWord("WITHSCORES"))
		}
		out := run(args...)
		var items [][]byte
		for j := n - 1; j >= 0; j-- {
			sc := scores[j]
			if sc < fmin || (emin && sc == fmin) || sc > fmax || (emax && sc == fmax) {
				continue
			}
			items = append(items, vBulk(B(all[j])))
			if withscores {
				items = append(items, vBulk(B(strconv.FormatFloat(sc, 'g', -1, 64))))
			}
		}
		vsymAssert(vBytesEq(out, vArrayOf(items)), "zrevrangebyscore-descending-with-pairs-intact")
	case "system":
		switch vsymChoice("op", 3) {
		case 0:
			out := run(B("PING"))
			vsymAssert(vBytesEq(out, B("+PONG\r\n")), "ping-pong")
		case 1:
			msg := vsymBytes("msg", 1+vsymChoice("msglen", 2))
			out := run(B("PING"), msg)
			vsymAssert(vBytesEq(out, vBulk(msg)), "ping-with-message-echoes-it")
		case 2:
			// CONFIG GET returns, in request order, the values last stored with CONFIG SET
			v1 := vsymBytes("v1", 1)
			v2 := vsymBytes("v2", 1)
			k1 := []string{"p", "q"}[vsymChoice("k1", 2)]
			k2 := []string{"p", "q"}[vsymChoice("k2", 2)]
			out := run(B("CONFIG"), B("SET"), B(k1), v1, B(k2), v2)
			vsymAssert(vBytesEq(out, B("+OK\r\n")), "config-set-ok")
			last := map[string][]byte{k1: v1}
			last[k2] = v2
			g1 := []string{"p", "q"}[vsymChoice("g1", 2)]
			g2 := []string{"p", "q"}[vsymChoice("g2", 2)]
			out = run(gWord("CONFIG"), gWord("GET"), B(g1), B(g2))
			var items [][]byte
			for _, g := range []string{g1, g2} {
				items = append(items, vBulk(B(g)))
				if v, ok := last[g]; ok {
					items = append(items, vBulk(v))
				} else {
					items = append(items, vBulk(nil))
				}
			}
			vsymAssert(vBytesEq(out, vArrayOf(items)), "config-get-returns-last-set-values-in-request-order")
		}
	}
	vsymCover("end")
}
