package redis

// Environment doubles shared by the redis-package harnesses: a scripted net.Conn, a strict RESP2
// reader used as an independent oracle for the reply stream, and request builders.

import (
	"errors"
	"io"
	"net"
	"strconv"
	"time"
)

type vaddr struct{}

func (vaddr) Network() string { return "vnet" }
func (vaddr) String() string  { return "vconn:0" }

var errVconnReset = errors.New("connection reset by peer")
var errVconnClosed = errors.New("use of closed network connection")

// vconn is a scripted connection: input is a byte script, output is logged.
type vconn struct {
	in        []byte
	pos       int
	out       []byte
	closed    bool
	closes    int
	cut       int  // >=0: the stream ends after cut bytes
	reset     bool // the end of the stream is a reset (read error, writes fail) instead of a half-close
	chunked   bool // read sizes are chosen by the environment (every partition)
	splitAt   int  // >0: the stream arrives in two segments, the first ends at this offset
	failWrite int  // >=0: the failWrite-th Write (0-based) and all later ones fail
	writes    int
	onRead    func(c *vconn) // called at the moment the server asks the transport for bytes
	readsAtEOF int
	yield      bool // every Read is a scheduling point (concurrency harnesses)
	blockAtEnd bool // an idle client: Read at the end of the script blocks until the connection is closed
	closedFlag bool
	blockWrite bool // a client that stopped reading: Write blocks until the connection is closed
	closeErr   bool // Close closes the socket but reports an error (as tls.Conn does when the close_notify alert cannot be sent)
}

func newVconn(in []byte) *vconn {
	return &vconn{in: in, cut: -1, failWrite: -1}
}

func (c *vconn) limit() int {
	if c.cut >= 0 && c.cut < len(c.in) {
		return c.cut
	}
	return len(c.in)
}

func (c *vconn) Read(p []byte) (int, error) {
	if c.yield && (c.pos == 0 || c.pos >= c.limit() || c.in[c.pos-1] == '\n' && (c.in[c.pos] == '*')) {
		// scheduling point where a new request starts (reads inside one request touch no shared state)
		vsymYield()
	}
	if vsymFlag(&c.closed) {
		return 0, errVconnClosed
	}
	if c.onRead != nil {
		c.onRead(c)
	}
	lim := c.limit()
	if c.pos >= lim && c.blockAtEnd {
		vsymAwait(&c.closedFlag)
		return 0, errVconnClosed
	}
	if c.pos >= lim {
		c.readsAtEOF++
		if c.reset && c.cut >= 0 {
			return 0, errVconnReset
		}
		return 0, io.EOF
	}
	if len(p) == 0 {
		return 0, nil
	}
	max := lim - c.pos
	if len(p) < max {
		max = len(p)
	}
	k := max
	if c.splitAt > 0 && c.pos < c.splitAt && c.pos+k > c.splitAt {
		k = c.splitAt - c.pos
	}
	if c.chunked && max > 1 {
		k = 1 + vsymChoice("chunk", max)
	}
	copy(p, c.in[c.pos:c.pos+k])
	c.pos += k
	return k, nil
}

func (c *vconn) Write(p []byte) (int, error) {
	if vsymFlag(&c.closed) {
		return 0, errVconnClosed
	}
	n := c.writes
	c.writes++
	if c.blockWrite {
		vsymAwait(&c.closedFlag)
		return 0, errVconnClosed
	}
	if c.failWrite >= 0 && n >= c.failWrite {
		return 0, errVconnReset
	}
	if c.reset && c.cut >= 0 && c.pos >= c.limit() {
		return 0, errVconnReset
	}
	c.out = append(c.out, p...)
	return len(p), nil
}

func (c *vconn) Close() error {
	c.closes++
	vsymSignal(&c.closed) // a real net.Conn may be closed from another goroutine
	if c.blockAtEnd || c.blockWrite {
		vsymSignal(&c.closedFlag)
	}
	if c.closeErr {
		return errVconnReset
	}
	return nil
}
func (c *vconn) LocalAddr() net.Addr                { return vaddr{} }
func (c *vconn) RemoteAddr() net.Addr               { return vaddr{} }
func (c *vconn) SetDeadline(t time.Time) error      { return nil }
func (c *vconn) SetReadDeadline(t time.Time) error  { return nil }
func (c *vconn) SetWriteDeadline(t time.Time) error { return nil }

// ---- request encoding (independent of the library serialiser) ----

func vItoa(n int) []byte {
	if n == 0 {
		return []byte{'0'}
	}
	neg := n < 0
	if neg {
		n = -n
	}
	var tmp [24]byte
	i := len(tmp)
	for n > 0 {
		i--
		tmp[i] = byte('0' + n%10)
		n /= 10
	}
	if neg {
		i--
		tmp[i] = '-'
	}
	return append([]byte{}, tmp[i:]...)
}

func vBulk(b []byte) []byte {
	out := []byte{'$'}
	out = append(out, vItoa(len(b))...)
	out = append(out, '\r', '\n')
	out = append(out, b...)
	return append(out, '\r', '\n')
}

// vReq encodes a command request: an array of bulk strings.
func vReq(args ...[]byte) []byte {
	out := []byte{'*'}
	out = append(out, vItoa(len(args))...)
	out = append(out, '\r', '\n')
	for _, a := range args {
		out = append(out, vBulk(a)...)
	}
	return out
}

func vReqS(args ...string) []byte {
	bs := make([][]byte, len(args))
	for i, a := range args {
		bs[i] = []byte(a)
	}
	return vReq(bs...)
}

// ---- strict RESP2 reader (oracle for the reply stream) ----

// vStrictValue parses one complete RESP2 value at b[pos:]. It returns the position after the value,
// or -1 when the bytes are not a complete well-formed value.
func vStrictValue(b []byte, pos int, depth int) int {
	if pos >= len(b) || depth > 4 {
		return -1
	}
	t := b[pos]
	pos++
	switch t {
	case '+', '-', ':':
		// a line: no CR or LF inside, terminated by CRLF
		for pos < len(b) {
			if b[pos] == '\n' {
				return -1
			}
			if b[pos] == '\r' {
				if pos+1 < len(b) && b[pos+1] == '\n' {
					return pos + 2
				}
				return -1
			}
			pos++
		}
		return -1
	case '$', '*':
		// decimal length: "-1" or digits
		if pos < len(b) && b[pos] == '-' {
			if pos+3 < len(b) && b[pos+1] == '1' && b[pos+2] == '\r' && b[pos+3] == '\n' {
				return pos + 4
			}
			return -1
		}
		n := 0
		digits := 0
		for pos < len(b) && b[pos] >= '0' && b[pos] <= '9' {
			n = n*10 + int(b[pos]-'0')
			pos++
			digits++
			if digits > 9 {
				return -1
			}
		}
		if digits == 0 || pos+1 >= len(b) || b[pos] != '\r' || b[pos+1] != '\n' {
			return -1
		}
		pos += 2
		if t == '$' {
			if pos+n+1 >= len(b) || b[pos+n] != '\r' || b[pos+n+1] != '\n' {
				return -1
			}
			return pos + n + 2
		}
		for i := 0; i < n; i++ {
			pos = vStrictValue(b, pos, depth+1)
			if pos < 0 {
				return -1
			}
		}
		return pos
	}
	return -1
}

// vStrictStream parses a concatenation of complete values; ok is false if anything is malformed or left over.
func vStrictStream(b []byte) (ends []int, ok bool) {
	pos := 0
	for pos < len(b) {
		next := vStrictValue(b, pos, 0)
		if next < 0 {
			return ends, false
		}
		ends = append(ends, next)
		pos = next
	}
	return ends, true
}

func vBytesEq(a, b []byte) bool {
	if len(a) != len(b) {
		return false
	}
	ok := true
	for i := range a {
		if a[i] != b[i] {
			ok = false
		}
	}
	return ok
}

func vHasPrefix(b []byte, p string) bool {
	if len(b) < len(p) {
		return false
	}
	ok := true
	for i := 0; i < len(p); i++ {
		if b[i] != p[i] {
			ok = false
		}
	}
	return ok
}

func parseFloat64(s string) (float64, error) { return strconv.ParseFloat(s, 64) }
