package redis

import (
	"github.com/cybergarage/go-redis/redis/auth"
	"github.com/google/uuid"
)

func init() {
	vsymHarnesses["HarnessC14Pair"] = HarnessC14Pair
}

var c14Requests = map[string][]string{
	"configset": {"CONFIG", "SET", "maxclients", "7"},
	"configget": {"CONFIG", "GET", "maxclients"},
	"setpass":   {"CONFIG", "SET", "requirepass", "pw"},
	"ping":      {"PING"},
	"ping-lc":   {"ping"},
	"select":    {"SELECT", "3"},
	"auth":      {"AUTH", "pw"},
	"get":       {"GET", "k"},
	"quit":      {"QUIT"},
	"connect":   {},
}

// c14Canned: one well-formed request per command family member; the self-pair harness sends it on
// two connections at once (with different keys/patterns), so per-command shared state in the framework
// (caches, option tables, pooled buffers) is exercised for every registered command.
var c14Canned = map[string][][]string{
	"AUTH": {{"pw"}, {"pw"}}, "PING": {{}, {"x"}}, "ECHO": {{"a"}, {"b"}}, "SELECT": {{"1"}, {"2"}}, "QUIT": {{}, {}},
	"CONFIG": {{"SET", "p", "1"}, {"GET", "p"}}, "DEL": {{"a"}, {"b", "c"}}, "EXPIRE": {{"a", "10"}, {"b", "20", "NX"}},
	"EXPIREAT": {{"a", "4102444800"}, {"b", "4102444801"}}, "EXISTS": {{"a"}, {"b"}}, "KEYS": {{"a*"}, {"b?"}}, "TYPE": {{"a"}, {"b"}},
	"RENAME": {{"a", "b"}, {"c", "d"}}, "RENAMENX": {{"a", "b"}, {"c", "d"}}, "TTL": {{"a"}, {"b"}},
	"SCAN": {{"0", "MATCH", "a*", "COUNT", "5"}, {"0", "MATCH", "b?", "TYPE", "string"}},
	"GET": {{"a"}, {"b"}}, "SET": {{"a", "1", "EX", "10"}, {"b", "2", "NX"}}, "SETEX": {{"a", "10", "v"}, {"b", "20", "w"}},
	"GETSET": {{"a", "1"}, {"b", "2"}}, "MSET": {{"a", "1", "b", "2"}, {"c", "3"}}, "MSETNX": {{"a", "1"}, {"b", "2"}},
	"MGET": {{"a", "b"}, {"c"}}, "SETNX": {{"a", "1"}, {"b", "2"}}, "HDEL": {{"h", "f"}, {"g", "e"}}, "HGET": {{"h", "f"}, {"g", "e"}},
	"HGETALL": {{"h"}, {"g"}}, "HSET": {{"h", "f", "v"}, {"g", "e", "w"}}, "HSETNX": {{"h", "f", "v"}, {"g", "e", "w"}},
	"HMSET": {{"h", "f", "v"}, {"g", "e", "w"}}, "HMGET": {{"h", "f"}, {"g", "e"}}, "LINDEX": {{"l", "0"}, {"m", "-1"}},
	"LLEN": {{"l"}, {"m"}}, "LPOP": {{"l"}, {"m", "2"}}, "LPUSH": {{"l", "a"}, {"m", "b", "c"}}, "LPUSHX": {{"l", "a"}, {"m", "b"}},
	"LRANGE": {{"l", "0", "-1"}, {"m", "1", "2"}}, "RPOP": {{"l"}, {"m", "2"}}, "RPUSH": {{"l", "a"}, {"m", "b"}}, "RPUSHX": {{"l", "a"}, {"m", "b"}},
	"SADD": {{"s", "a"}, {"t", "b"}}, "SMEMBERS": {{"s"}, {"t"}}, "SREM": {{"s", "a"}, {"t", "b"}},
	"ZADD": {{"z", "1", "a"}, {"y", "NX", "2", "b"}}, "ZINCRBY": {{"z", "1", "a"}, {"y", "2", "b"}},
	"ZRANGE": {{"z", "0", "-1", "WITHSCORES"}, {"y", "(1", "5", "BYSCORE", "LIMIT", "0", "1"}}, "ZREVRANGE": {{"z", "0", "-1"}, {"y", "0", "1", "WITHSCORES"}},
	"ZRANGEBYSCORE": {{"z", "0", "5"}, {"y", "(1", "+inf", "LIMIT", "0", "2"}}, "ZREVRANGEBYSCORE": {{"z", "5", "0"}, {"y", "+inf", "(1"}},
	"ZREM": {{"z", "a"}, {"y", "b"}}, "ZSCORE": {{"z", "a"}, {"y", "b"}}, "APPEND": {{"a", "x"}, {"b", "y"}}, "DECR": {{"a"}, {"b"}},
	"DECRBY": {{"a", "2"}, {"b", "3"}}, "GETRANGE": {{"a", "0", "-1"}, {"b", "1", "2"}}, "INCR": {{"a"}, {"b"}}, "INCRBY": {{"a", "2"}, {"b", "3"}},
	"STRLEN": {{"a"}, {"b"}}, "SUBSTR": {{"a", "0", "-1"}, {"b", "1", "2"}}, "HEXISTS": {{"h", "f"}, {"g", "e"}}, "HKEYS": {{"h"}, {"g"}},
	"HLEN": {{"h"}, {"g"}}, "HSTRLEN": {{"h", "f"}, {"g", "e"}}, "HVALS": {{"h"}, {"g"}}, "SCARD": {{"s"}, {"t"}}, "SISMEMBER": {{"s", "a"}, {"t", "b"}},
	"ZCARD": {{"z"}, {"y"}},
}

// c14Request builds the i-th (0/1) canned request of a command; commands without an entry get one key argument.
func c14Request(cmd string, i int) []byte {
	args := []string{[]string{"k0", "k1"}[i]}
	if c, ok := c14Canned[cmd]; ok {
		args = c[i]
	}
	return vReqS(append([]string{cmd}, args...)...)
}

// c14Entry runs one API entry of the server (one per goroutine in the pair harness).
func c14Entry(server *Server, name string) {
	// Native confirmation of a race candidate (go test -race) only sees a race whose two accesses are
	// not ordered on the schedule that happens to run; the entry is therefore repeated there so that
	// the window between its accesses and the other goroutine's is hit. The engine runs it once.
	reps := 1
	if vsymIsReplay() {
		reps = 60
	}
	if len(name) > 4 && name[:4] == "cmd:" {
		// "cmd:<i>:<NAME>": PING (so that the connection is fully set up), then the canned request
		i := int(name[4] - '0')
		for r := 0; r < reps; r++ {
			server.receive(newVconn(append(vReqS("PING"), c14Request(name[6:], i)...)), nil)
		}
		return
	}
	if args, ok := c14Requests[name]; ok {
		for r := 0; r < reps; r++ {
			var in []byte
			if len(args) > 0 {
				in = vReqS(args...)
			}
			server.receive(newVconn(in), nil)
		}
		return
	}
	if reps > 1 && (name == "rotate" || name == "restart") {
		for r := 0; r < 8; r++ {
			if name == "rotate" {
				server.SetRequirePass([]string{"pw3", "pw4"}[r%2])
			}
			server.Restart()
		}
		server.Stop()
		return
	}
	switch name {
	case "conns":
		for _, c := range server.Conns() {
			_ = c.UUID()
		}
	case "connbyuuid":
		server.ConnByUUID(uuid.UUID{})
	case "stop":
		server.Stop()
	case "restart":
		server.Restart()
		server.Stop()
	case "rotate":
		// password rotation: new requirepass, then Restart (Start installs / refreshes the authenticators)
		server.SetRequirePass("pw3")
		server.Restart()
		server.Stop()
	case "addauth":
		server.AddAuthenticator(auth.NewCertificateAuthenticatorWith(auth.WithCommonName("x")))
	case "requirepass":
		server.SetRequirePass("pw2")
	case "idle":
	}
}

// HarnessC14Pair: two goroutines each run one entry point of the server concurrently. The engine's
// vector-clock race detector reports conflicting accesses to one memory location that are not
// ordered by happens-before (goroutine start, mutex, sync.Map, atomics); natively the same harness
// runs under the Go race detector.
func HarnessC14Pair() {
	a, b := vsymParam("a"), vsymParam("b")
	vsymTag("pair", a+"+"+b)
	vsymRaceDetect()
	vsymSchedBound(vsymParamInt("preempt", 1))
	vsymUnwind(400)
	server := NewServer()
	server.SetCommandHandler(&vhandler{mode: 0, quiet: true})
	if vsymParamInt("withpass", 0) == 1 {
		server.SetRequirePass("pw")
		server.AddAuthenticator(auth.NewClearTextPasswordAuthenticatorWith("", "pw"))
	}
	done := make([]bool, 2)
	go func() {
		c14Entry(server, a)
		vsymSignal(&done[0])
	}()
	go func() {
		c14Entry(server, b)
		vsymSignal(&done[1])
	}()
	vsymAwait(&done[0])
	vsymAwait(&done[1])
	vsymCover("end")
}
