package redis

import (
	"github.com/cybergarage/go-redis/redis/auth"
	"github.com/google/uuid"
)

func init() {
	vsymHarnesses["HarnessC14Pair"] = HarnessC14Pair
}

var c14Requests = map[string][]string{
	"configset": {"CONFIG", "SET", "maxclients", "7"},
	"configget": {"CONFIG", "GET", "maxclients"},
	"setpass":   {"CONFIG", "SET", "requirepass", "pw"},
	"ping":      {"PING"},
	"ping-lc":   {"ping"},
	"select":    {"SELECT", "3"},
	"auth":      {"AUTH", "pw"},
	"get":       {"GET", "k"},
	"quit":      {"QUIT"},
	"connect":   {},
}

// c14Entry runs one API entry of the server (one per goroutine in the pair harness).
func c14Entry(server *Server, name string) {
	if args, ok := c14Requests[name]; ok {
		var in []byte
		if len(args) > 0 {
			in = vReqS(args...)
		}
		server.receive(newVconn(in), nil)
		return
	}
	switch name {
	case "conns":
		for _, c := range server.Conns() {
			_ = c.UUID()
		}
	case "connbyuuid":
		server.ConnByUUID(uuid.UUID{})
	case "stop":
		server.Stop()
	case "restart":
		server.Restart()
		server.Stop()
	case "addauth":
		server.AddAuthenticator(auth.NewCertificateAuthenticatorWith(auth.WithCommonName("x")))
	case "requirepass":
		server.SetRequirePass("pw2")
	case "idle":
	}
}

// HarnessC14Pair: two goroutines each run one entry point of the server concurrently. The engine's
// vector-clock race detector reports conflicting accesses to one memory location that are not
// ordered by happens-before (goroutine start, mutex, sync.Map, atomics); natively the same harness
// runs under the Go race detector.
func HarnessC14Pair() {
	a, b := vsymParam("a"), vsymParam("b")
	vsymTag("pair", a+"+"+b)
	vsymRaceDetect()
	vsymSchedBound(vsymParamInt("preempt", 1))
	vsymUnwind(400)
	server := NewServer()
	server.SetCommandHandler(&vhandler{mode: 0, quiet: true})
	if vsymParamInt("withpass", 0) == 1 {
		server.SetRequirePass("pw")
		server.AddAuthenticator(auth.NewClearTextPasswordAuthenticatorWith("", "pw"))
	}
	done := make([]bool, 2)
	go func() {
		c14Entry(server, a)
		vsymSignal(&done[0])
	}()
	go func() {
		c14Entry(server, b)
		vsymSignal(&done[1])
	}()
	vsymAwait(&done[0])
	vsymAwait(&done[1])
	vsymCover("end")
}
