package redis

import "crypto/tls"

func init() {
	vsymHarnesses["HarnessC08Gate"] = HarnessC08Gate
	vsymHarnesses["HarnessC08Long"] = HarnessC08Long
}

// HarnessC08Long: candidates that extend the password by 255, 256, 257, 512 or 65536 arbitrary bytes
// (length arithmetic in a comparison must not wrap), and candidates of the same length that differ.
func HarnessC08Long() {
	extra := vsymParamInt("extra", 256)
	vsymUnwind(extra + 400)
	P := vsymBytes("password", 1+vsymChoice("passlen", 2))
	server := NewServer()
	h := &vhandler{mode: 0}
	server.SetCommandHandler(h)
	server.SetRequirePass(string(P))
	if err := server.Start(); err != nil {
		vsymFail("start-failed")
		return
	}
	cand := append(append([]byte{}, P...), vsymBytes("suffix", extra)...)
	in := vReq([]byte("AUTH"), cand)
	in = append(in, vReqS("GET", "k")...)
	conn := newVconn(in)
	server.receive(conn, nil)
	ends, ok := vStrictStream(conn.out)
	vsymAssert(ok && len(ends) == 2, "one-reply-per-request")
	if ok && len(ends) == 2 {
		vsymAssert(conn.out[0] == '-', "extended-password-is-refused")
		vsymAssert(vBytesEq(conn.out[ends[0]:], []byte("-not authrized\r\n")), "command-after-refused-auth-is-refused")
	}
	vsymAssert(len(h.calls) == 0, "handler-runs-only-after-exact-password")
	vsymCover("end")
}

// HarnessC08Gate: requirepass = P (symbolic). A connection sends a sequence of requests: AUTH with
// arbitrary candidates (one- and two-argument forms, missing or null argument) and other commands.
// Nothing but AUTH runs before the exact password was presented on this connection.
func HarnessC08Gate() {
	R := vsymParamInt("requests", 2)
	maxP := vsymParamInt("passlen", 2)
	vsymUnwind(400)
	P := vsymBytes("password", vsymLen("passlen", maxP))
	server := NewServer()
	h := &vhandler{mode: 0}
	server.SetCommandHandler(h)
	server.SetRequirePass(string(P))
	if err := server.Start(); err != nil {
		vsymFail("start-failed")
		return
	}
	var in []byte
	type exp struct {
		kind  int // 0 other command, 1 auth
		exact bool
		calls int
	}
	var exps []exp
	small := vsymParamInt("small", 0) == 1
	for i := 0; i < R; i++ {
		kind := 0
		if small {
			// longer sequences over a reduced alphabet: AUTH with a same-length candidate, GET, PING
			kind = []int{0, 4, 5}[vsymChoice("request", 3)]
		} else {
			kind = vsymChoice("request", 8)
		}
		switch kind {
		case 0:
			var a []byte
			if small {
				a = vsymBytes("cand", len(P))
			} else {
				a = vsymBytes("cand", vsymLen("candlen", len(P)+1))
			}
			in = append(in, vReq([]byte("AUTH"), a)...)
			exps = append(exps, exp{kind: 1, exact: string(a) == string(P)})
			vsymCover("auth-one-arg")
		case 1:
			u := vsymBytes("user", vsymLen("userlen", 1))
			a := vsymBytes("cand", vsymLen("candlen", len(P)+1))
			in = append(in, vReq([]byte("auth"), u, a)...)
			exps = append(exps, exp{kind: 1, exact: len(u) == 0 && string(a) == string(P)})
			vsymCover("auth-two-args")
		case 2:
			in = append(in, vReq([]byte("AUTH"))...)
			exps = append(exps, exp{kind: 1})
		case 3:
			in = append(in, []byte("*2\r\n$4\r\nAUTH\r\n$-1\r\n")...)
			exps = append(exps, exp{kind: 1})
			vsymCover("auth-null")
		case 4:
			in = append(in, vReqS("GET", "k")...)
			exps = append(exps, exp{kind: 0, calls: 1})
		case 5:
			in = append(in, vReqS("PING")...)
			exps = append(exps, exp{kind: 0})
		case 6:
			in = append(in, vReqS("SELECT", "3")...)
			exps = append(exps, exp{kind: 0})
		case 7:
			in = append(in, vReqS("CONFIG", "SET", "requirepass", "x")...)
			exps = append(exps, exp{kind: 0})
		}
	}
	conn := newVconn(in)
	var hc *Conn
	h.onCall = func(h *vhandler, c *vcall) {
		hc = c.conn
	}
	if vsymParamInt("tls", 0) == 1 {
		// the same gate on a connection that arrived through the TLS port (handshake completed, no certificate rule)
		server.receive(conn, &tls.ConnectionState{})
		vsymCover("tls")
	} else {
		server.receive(conn, nil)
	}
	_ = hc
	ends, ok := vStrictStream(conn.out)
	vsymAssert(ok && len(ends) == len(exps), "one-reply-per-request")
	if !ok || len(ends) != len(exps) {
		return
	}
	authed := false
	calls := 0
	start := 0
	for i, e := range exps {
		reply := conn.out[start:ends[i]]
		start = ends[i]
		if e.kind == 1 {
			if e.exact {
				vsymAssert(vBytesEq(reply, []byte("+OK\r\n")), "exact-password-always-succeeds")
				authed = true
				vsymCover("authorised")
			} else {
				vsymAssert(reply[0] == '-', "auth-with-anything-else-is-refused")
			}
			continue
		}
		if !authed {
			vsymAssert(vBytesEq(reply, []byte("-not authrized\r\n")), "command-before-auth-is-refused")
			vsymCover("refused")
		} else {
			vsymAssert(reply[0] != '-' || !vHasPrefix(reply, "-not authrized"), "command-after-auth-is-served")
			calls += e.calls
		}
	}
	vsymAssert(len(h.calls) == calls, "handler-runs-only-after-exact-password")
	for _, c := range h.calls {
		vsymAssert(c.authed, "handler-sees-authorised-connection")
	}
	vsymCover("end")
}
