package redis

import (
	"bufio"
	"fmt"
	"os"
	"strconv"

	"github.com/cybergarage/go-redis/redis/proto"
)

func init() {
	vsymHarnesses["ProbeC17Scan"] = ProbeC17Scan
}

// ProbeC17Scan (native only): the regular expression the real SCAN argument parser produces for MATCH <pattern>.
func ProbeC17Scan() {
	in, err := os.Open(os.Getenv("VSYM_C17_IN"))
	if err != nil {
		panic(err)
	}
	defer in.Close()
	out, err := os.Create(os.Getenv("VSYM_C17_OUT"))
	if err != nil {
		panic(err)
	}
	defer out.Close()
	w := bufio.NewWriter(out)
	defer w.Flush()
	sc := bufio.NewScanner(in)
	for sc.Scan() {
		p, err := strconv.Unquote(sc.Text())
		if err != nil {
			continue
		}
		func() {
			defer func() {
				if r := recover(); r != nil {
					fmt.Fprintf(w, "%s\tPANIC %v\n", strconv.Quote(p), r)
				}
			}()
			args := proto.NewArray()
			args.Append(NewBulkMessage("MATCH"))
			args.Append(NewBulkMessage(p))
			opt, err := nextScanArgument("SCAN", args)
			if err != nil {
				fmt.Fprintf(w, "%s\tERR %s\n", strconv.Quote(p), strconv.Quote(err.Error()))
				return
			}
			fmt.Fprintf(w, "%s\t%s\n", strconv.Quote(p), strconv.Quote(opt.MatchPattern.String()))
		}()
	}
}
