package redis

import "net"

// Exported entry points for harnesses that live in other packages (the example server):
// the real connection loop served synchronously on a caller-supplied connection.

type VConn = vconn

func VsymNewConn(in []byte) *VConn { return newVconn(in) }
func (c *vconn) Out() []byte       { return c.out }
func (c *vconn) IsClosed() bool    { return c.closed }
func (c *vconn) SetCut(n int, reset bool) {
	c.cut = n
	c.reset = reset
}

func VsymServe(s *Server, c net.Conn) error { return s.receive(c, nil) }

func VsymReq(args ...[]byte) []byte              { return vReq(args...) }
func VsymReqS(args ...string) []byte             { return vReqS(args...) }
func VsymStrictStream(b []byte) ([]int, bool)    { return vStrictStream(b) }
func VsymBytesEq(a, b []byte) bool               { return vBytesEq(a, b) }
func VsymBulk(b []byte) []byte                   { return vBulk(b) }
func VsymItoa(n int) []byte                      { return vItoa(n) }
func VsymBoundaryInts() []string                 { return vBoundaryInts }

type VC16State = c16state

func VsymC16Apply(st VC16State, cmd string) ([]byte, VC16State) { return c16Apply(st, cmd) }
func VsymC16Request(cmd string) []byte                          { return c16Request(cmd) }
func VsymC16State(k string, hasK bool, j string, hasJ bool) VC16State {
	return c16state{k: k, hasK: hasK, j: j, hasJ: hasJ}
}
