package redis

import (
	"errors"
	"net"
	"sync"
)

// Stub network for lifecycle harnesses: net.Listen is redirected here by the engine
// (job override "net.Listen" -> vnetListen); ports are entries of a table.

var errAddrInUse = errors.New("bind: address already in use")
var errListenerClosed = errors.New("use of closed network connection")

type vlistener struct {
	mu      sync.Mutex // a real listener is safe for concurrent use
	addr    string
	closed  bool
	queue   []net.Conn
	wake    bool
	accepts int
	waiting int
}

var vPorts = map[string]*vlistener{}

func vnetListen(network, addr string) (net.Listener, error) {
	if l, ok := vPorts[addr]; ok && !l.closed {
		return nil, errAddrInUse
	}
	l := &vlistener{addr: addr}
	vPorts[addr] = l
	return l, nil
}

func (l *vlistener) Accept() (net.Conn, error) {
	for {
		if vsymFlag(&l.closed) {
			return nil, errListenerClosed
		}
		l.mu.Lock()
		if len(l.queue) > 0 {
			c := l.queue[0]
			l.queue = l.queue[1:]
			l.accepts++
			l.mu.Unlock()
			return c, nil
		}
		l.wake = false
		l.waiting++
		l.mu.Unlock()
		vsymAwait(&l.wake)
		l.mu.Lock()
		l.waiting--
		l.mu.Unlock()
	}
}

func (l *vlistener) Close() error {
	if vsymFlag(&l.closed) {
		return errListenerClosed
	}
	vsymSignal(&l.closed)
	// connections still waiting in the accept queue are reset, as the kernel does
	l.mu.Lock()
	q := l.queue
	l.queue = nil
	l.mu.Unlock()
	for _, c := range q {
		c.Close()
	}
	vsymSignal(&l.wake)
	return nil
}

func (l *vlistener) Addr() net.Addr { return vaddr{} }

// vDial hands a client connection to the listener bound to addr.
func vDial(addr string, c net.Conn) bool {
	l, ok := vPorts[addr]
	if !ok || vsymFlag(&l.closed) {
		return false
	}
	l.mu.Lock()
	l.queue = append(l.queue, c)
	l.mu.Unlock()
	vsymSignal(&l.wake)
	return true
}
