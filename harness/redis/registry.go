package redis

var vsymHarnesses = map[string]func(){}
