package redis

import "strconv"

func init() {
	vsymHarnesses["HarnessC10Reject"] = HarnessC10Reject
	vsymHarnesses["HarnessC10SetOptions"] = HarnessC10SetOptions
	vsymHarnesses["HarnessC10Options"] = HarnessC10Options
}

// required positional arguments per command: k key, s string, i integer, f float, b score bound,
// L non-empty string list, P non-empty key/value list, Z non-empty score/member list
var gSpec = map[string]string{
	"GET": "k", "TYPE": "k", "TTL": "k", "LLEN": "k", "SMEMBERS": "k", "HGETALL": "k", "KEYS": "k",
	"DEL": "L", "EXISTS": "L", "MGET": "L",
	"RENAME": "ks", "RENAMENX": "ks", "EXPIRE": "ki", "EXPIREAT": "ki", "SCAN": "i",
	"SET": "ks", "GETSET": "ks", "SETNX": "ks", "APPEND": "ks", "SETEX": "kis",
	"MSET": "P", "MSETNX": "P", "HMSET": "kP", "HMGET": "kL",
	"HDEL": "kL", "SADD": "kL", "SREM": "kL", "ZREM": "kL", "LPUSH": "kL", "RPUSH": "kL", "LPUSHX": "kL", "RPUSHX": "kL",
	"HGET": "ks", "ZSCORE": "ks", "HSET": "kss", "HSETNX": "kss",
	"LINDEX": "ki", "LRANGE": "kii", "LPOP": "k", "RPOP": "k",
	"ZADD": "kZ", "ZINCRBY": "kfs", "ZRANGE": "kbb", "ZRANGEBYSCORE": "kbb", "ZREVRANGEBYSCORE": "kbb", "ZREVRANGE": "kii",
	"GETRANGE": "kii", "SUBSTR": "kii", "INCRBY": "ki", "DECRBY": "ki", "INCR": "k", "DECR": "k", "STRLEN": "k",
	"HEXISTS": "ks", "HSTRLEN": "ks", "HKEYS": "k", "HVALS": "k", "HLEN": "k", "SCARD": "k", "ZCARD": "k", "SISMEMBER": "ks",
	"ECHO": "s", "SELECT": "i",
}

func gIsDecimal(b []byte) bool {
	i := 0
	if len(b) > 0 && (b[0] == '-' || b[0] == '+') {
		i = 1
	}
	if i >= len(b) {
		return false
	}
	ok := true
	for ; i < len(b); i++ {
		if b[i] < '0' || b[i] > '9' {
			ok = false
		}
	}
	return ok
}

// HarnessC10Reject: a well-formed request with exactly one malformation applied. It must be answered
// with an error reply, without any handler invocation, and the following PING is answered normally.
func HarnessC10Reject() {
	cmd := vsymParam("cmd")
	vsymTag("cmd", cmd)
	vsymUnwind(400)
	spec, ok := gSpec[cmd]
	if !ok {
		vsymCover("not-in-grammar")
		return
	}
	server := NewServer()
	h := &vhandler{mode: 0}
	server.SetCommandHandler(h)
	// well-formed base rendering, one wire element list per position
	var pos [][][]byte
	for _, kind := range spec {
		switch kind {
		case 'k':
			pos = append(pos, [][]byte{[]byte("k")})
		case 's':
			pos = append(pos, [][]byte{[]byte("v")})
		case 'i':
			pos = append(pos, [][]byte{[]byte("1")})
		case 'f', 'b':
			pos = append(pos, [][]byte{[]byte("1")})
		case 'L':
			pos = append(pos, [][]byte{[]byte("a"), []byte("b")})
		case 'P':
			pos = append(pos, [][]byte{[]byte("a"), []byte("1"), []byte("b"), []byte("2")})
		case 'Z':
			pos = append(pos, [][]byte{[]byte("1"), []byte("a"), []byte("2"), []byte("b")})
		}
	}
	var null = []byte{0xff, 'N', 'U', 'L', 'L'} // marker rendered as $-1
	j := vsymChoice("position", len(spec))
	kind := spec[j]
	mal := vsymChoice("malformation", 5)
	switch mal {
	case 0:
		// required position j (and everything after it) omitted
		pos = pos[:j]
		vsymTag("malformation", "missing")
		vsymCover("missing")
	case 1:
		// a null bulk where a value is required
		e := vsymChoice("element", len(pos[j]))
		pos[j][e] = null
		vsymTag("malformation", "null")
		vsymCover("null")
	case 2:
		// a token that is not a number at a numeric position
		if kind != 'i' && kind != 'f' && kind != 'b' && kind != 'Z' {
			return
		}
		tok := vsymBytes("junk", 1+vsymChoice("junklen", 2))
		if kind == 'i' {
			vsymAssume(!gIsDecimal(tok))
		} else {
			body := tok
			if kind == 'b' && len(tok) > 0 && tok[0] == '(' {
				body = tok[1:]
			}
			_, err := strconv.ParseFloat(string(body), 64)
			vsymAssume(err != nil)
		}
		pos[j][0] = tok
		vsymTag("malformation", "non-numeric")
		vsymCover("non-numeric")
	case 3:
		// out-of-range, fractional or empty token at an integer position
		if kind != 'i' {
			return
		}
		toks := []string{"9223372036854775808", "-9223372036854775809", "99999999999999999999", "1.5", "", "1e3", " 1", "0x10", "0X1f", "0b11", "0o17", "1_000", "1 ", "+", "-", "0x"}
		pos[j][0] = []byte(toks[vsymChoice("badint", len(toks))])
		vsymTag("malformation", "bad-integer")
		vsymCover("bad-integer")
	case 4:
		// a key/value or score/member list cut to an odd length
		if kind != 'P' && kind != 'Z' {
			return
		}
		cut := 1 + 2*vsymChoice("oddlen", 2)
		pos[j] = pos[j][:cut]
		vsymTag("malformation", "dangling-half")
		vsymCover("dangling-half")
	}
	args := [][]byte{[]byte(cmd)}
	for _, p := range pos {
		args = append(args, p...)
	}
	// render (null marker -> $-1)
	in := []byte{'*'}
	in = append(in, vItoa(len(args))...)
	in = append(in, '\r', '\n')
	for _, a := range args {
		if len(a) == 5 && a[0] == 0xff {
			in = append(in, '$', '-', '1', '\r', '\n')
		} else {
			in = append(in, vBulk(a)...)
		}
	}
	in = append(in, vReqS("PING")...)
	conn := newVconn(in)
	server.receive(conn, nil)
	ends, okS := vStrictStream(conn.out)
	vsymAssert(okS && len(ends) == 2, "two-complete-replies")
	if okS && len(ends) == 2 {
		vsymAssert(conn.out[0] == '-', "ill-formed-request-gets-error-reply")
		vsymAssert(vBytesEq(conn.out[ends[0]:], []byte("+PONG\r\n")), "following-request-processed-normally")
	}
	vsymAssert(len(h.calls) == 0, "handler-not-invoked-for-rejected-request")
	vsymCover("end")
}

// HarnessC10SetOptions: SET with mutually exclusive or repeated options, or a non-positive expiry.
func HarnessC10SetOptions() {
	vsymUnwind(400)
	server := NewServer()
	h := &vhandler{mode: 0}
	server.SetCommandHandler(h)
	args := [][]byte{[]byte("SET"), []byte("k"), []byte("v")}
	exp := []string{"EX", "PX", "EXAT", "PXAT"}
	switch vsymChoice("conflict", 6) {
	case 0:
		a := []string{"NX", "XX"}
		args = append(args, gWord(a[vsymChoice("first", 2)]), gWord(a[vsymChoice("second", 2)]))
		vsymCover("nx-xx")
	case 1:
		args = append(args, gWord(exp[vsymChoice("e1", 4)]), []byte("10"), gWord(exp[vsymChoice("e2", 4)]), []byte("20"))
		vsymCover("two-expiries")
	case 2:
		t, v := gInt("expire")
		vsymAssume(v <= 0)
		args = append(args, gWord(exp[vsymChoice("e1", 4)]), t)
		vsymCover("non-positive-expiry")
	case 3:
		args = append(args, gWord("KEEPTTL"), gWord("KEEPTTL"))
		vsymCover("repeated")
	case 4:
		args = append(args, gWord("GET"), gWord("GET"))
		vsymCover("repeated")
	case 5:
		args = append(args, gWord(exp[vsymChoice("e1", 4)]))
		vsymCover("expiry-without-value")
	}
	in := append(vReq(args...), vReqS("PING")...)
	conn := newVconn(in)
	server.receive(conn, nil)
	ends, okS := vStrictStream(conn.out)
	vsymAssert(okS && len(ends) == 2, "two-complete-replies")
	if okS && len(ends) == 2 {
		vsymAssert(conn.out[0] == '-', "conflicting-options-get-error-reply")
		vsymAssert(vBytesEq(conn.out[ends[0]:], []byte("+PONG\r\n")), "following-request-processed-normally")
	}
	vsymAssert(len(h.calls) == 0, "handler-not-invoked-for-rejected-request")
	vsymCover("end")
}

// option arguments that carry a value: well-formed request templates, '#' marks an integer value and
// '~' a string value of an option (every marked element is a malformation site)
var gOptionTemplates = [][]string{
	{"ZRANGEBYSCORE", "k", "0", "5", "LIMIT", "#", "#"},
	{"ZREVRANGEBYSCORE", "k", "5", "0", "LIMIT", "#", "#"},
	{"ZRANGEBYSCORE", "k", "0", "5", "WITHSCORES", "LIMIT", "#", "#"},
	{"ZRANGE", "k", "0", "5", "BYSCORE", "LIMIT", "#", "#"},
	{"ZRANGE", "k", "0", "5", "BYSCORE", "REV", "LIMIT", "#", "#"},
	{"SET", "k", "v", "EX", "#"}, {"SET", "k", "v", "PX", "#"}, {"SET", "k", "v", "EXAT", "#"}, {"SET", "k", "v", "PXAT", "#"},
	{"SET", "k", "v", "NX", "EX", "#"},
	{"SCAN", "0", "COUNT", "#"}, {"SCAN", "0", "MATCH", "~"}, {"SCAN", "0", "TYPE", "~"}, {"SCAN", "0", "MATCH", "~", "COUNT", "#"},
	{"LPOP", "k", "%"}, {"RPOP", "k", "%"}, // '%': an integer operand that may be absent altogether
}

// HarnessC10Options: a request whose option value (LIMIT offset/count, expiry, COUNT, pop count,
// MATCH/TYPE operand) is missing, null or not a number is rejected without a handler call, whatever
// well-formed values the other options carry.
func HarnessC10Options() {
	ti := vsymParamInt("template", 0)
	vsymUnwind(400)
	if ti >= len(gOptionTemplates) {
		vsymCover("no-such-template")
		return
	}
	tmpl := gOptionTemplates[ti]
	vsymTag("template", tmpl[0]+"#"+string(vItoa(ti)))
	server := NewServer()
	h := &vhandler{mode: 0}
	server.SetCommandHandler(h)
	var sites []int
	for i, a := range tmpl {
		if a == "#" || a == "~" || a == "%" {
			sites = append(sites, i)
		}
	}
	site := sites[vsymChoice("site", len(sites))]
	var null = []byte{0xff, 'N', 'U', 'L', 'L'}
	var args [][]byte
	for i, a := range tmpl {
		switch {
		case i == site:
			// the malformed value
			mal := vsymChoice("malformation", 4)
			if a == "~" && mal >= 2 {
				mal = vsymChoice("malformation-str", 2)
			}
			if a == "%" && mal == 0 {
				mal = 1
			}
			switch mal {
			case 0:
				vsymTag("malformation", "missing")
				vsymCover("missing")
			case 1:
				args = append(args, null)
				vsymTag("malformation", "null")
				vsymCover("null")
			case 2:
				tok := vsymBytes("junk", vsymChoice("junklen", 3))
				vsymAssume(!gIsDecimal(tok))
				args = append(args, tok)
				vsymTag("malformation", "non-numeric")
				vsymCover("non-numeric")
			case 3:
				toks := []string{"9223372036854775808", "-9223372036854775809", "1.5", "1e3", " 1", "0x10", "1_0"}
				args = append(args, []byte(toks[vsymChoice("badint", len(toks))]))
				vsymTag("malformation", "bad-integer")
				vsymCover("bad-integer")
			}
			if mal == 0 {
				// everything after a missing value is dropped as well
				goto rendered
			}
		case a == "#":
			// another option value of the request: any small well-formed positive integer
			d := vsymByte("digit")
			vsymAssume(d >= '1' && d <= '9')
			args = append(args, []byte{d})
		case a == "~":
			if i > 0 && tmpl[i-1] == "TYPE" {
				args = append(args, []byte("string"))
			} else {
				args = append(args, []byte("a*"))
			}
		default:
			args = append(args, []byte(a))
		}
	}
rendered:
	in := []byte{'*'}
	in = append(in, vItoa(len(args))...)
	in = append(in, '\r', '\n')
	for _, a := range args {
		if len(a) == 5 && a[0] == 0xff {
			in = append(in, '$', '-', '1', '\r', '\n')
		} else {
			in = append(in, vBulk(a)...)
		}
	}
	in = append(in, vReqS("PING")...)
	conn := newVconn(in)
	server.receive(conn, nil)
	ends, okS := vStrictStream(conn.out)
	vsymAssert(okS && len(ends) == 2, "two-complete-replies")
	if okS && len(ends) == 2 {
		vsymAssert(conn.out[0] == '-', "ill-formed-option-value-gets-error-reply")
		vsymAssert(vBytesEq(conn.out[ends[0]:], []byte("+PONG\r\n")), "following-request-processed-normally")
	}
	vsymAssert(len(h.calls) == 0, "handler-not-invoked-for-rejected-request")
	vsymCover("end")
}
