package redis

func init() {
	vsymHarnesses["HarnessC03Pipeline"] = HarnessC03Pipeline
}

var vKeywords = []string{"INCR", "EXAT", "PXAT", "KEEPTTL", "GET", "SET", "BYSCORE", "BYLEX", "REV", "LIMIT", "WITHSCORES", "MATCH", "COUNT", "TYPE"}

// vLooseArgs draws up to maxArgs request arguments: symbolic byte strings of length 0..maxLen
// (which covers numbers, two-letter options and junk) or, when kw is set, a long option keyword.
func vLooseArgs(maxArgs, maxLen int, kw bool) [][]byte {
	n := vsymLen("nargs", maxArgs)
	var args [][]byte
	for i := 0; i < n; i++ {
		if kw && vsymChoice("argkind", 2) == 1 {
			args = append(args, []byte(vKeywords[vsymChoice("kw", len(vKeywords))]))
			continue
		}
		l := vsymLen("arglen", maxLen)
		args = append(args, vsymBytes("arg", l))
	}
	return args
}

// HarnessC03Pipeline: [cmd args...] [PING] (or with QUIT in the middle) on one connection.
// At every moment the server asks the transport for more bytes, every fully delivered request
// has been answered: exactly one well-formed reply per request, in order.
func HarnessC03Pipeline() {
	cmd := vsymParam("cmd")
	vsymTag("cmd", cmd)
	maxArgs := vsymParamInt("maxargs", 3)
	maxLen := vsymParamInt("maxlen", 2)
	kw := vsymParamInt("kw", 0) == 1
	shape := vsymParam("shape") // "", "quit"
	vsymUnwind(vsymParamInt("unwind", 64))

	server := NewServer()
	h := &vhandler{mode: 1}
	server.SetCommandHandler(h)

	args := vLooseArgs(maxArgs, maxLen, kw)
	if fixed := vsymParam("fixed"); fixed != "" {
		// fixed leading arguments (comma separated), e.g. "0,MATCH" so that the loose argument is a SCAN pattern
		var lead [][]byte
		start := 0
		for i := 0; i <= len(fixed); i++ {
			if i == len(fixed) || fixed[i] == ',' {
				lead = append(lead, []byte(fixed[start:i]))
				start = i + 1
			}
		}
		args = append(lead, args...)
	}
	req := vReq(append([][]byte{[]byte(cmd)}, args...)...)
	var in []byte
	var ends []int
	add := func(b []byte) {
		in = append(in, b...)
		ends = append(ends, len(in))
	}
	quitAt := -1
	add(req)
	if shape == "repeat" {
		// the same request again, then the same command with fresh arguments (state left behind by a request must not stall a later one)
		add(req)
		args2 := vLooseArgs(maxArgs, maxLen, kw)
		add(vReq(append([][]byte{[]byte(cmd)}, args2...)...))
		vsymCover("repeat")
	}
	if shape == "quit" {
		quitAt = len(ends)
		add(vReqS("QUIT"))
	}
	add(vReqS("PING"))
	if cmd == "QUIT" {
		quitAt = 0
	}

	conn := newVconn(in)
	switch vsymParamInt("chunked", 0) {
	case 1:
		// two segments: every split point of the stream
		conn.splitAt = vsymChoice("split", len(in))
	case 2:
		conn.chunked = true
	}
	outAt := make([]int, len(ends)) // reply bytes written when the server asked for the first byte after request i
	seen := make([]bool, len(ends))
	conn.onRead = func(c *vconn) {
		for i, e := range ends {
			if c.pos == e && !seen[i] {
				seen[i] = true
				outAt[i] = len(c.out)
			}
		}
	}
	err := server.receive(conn, nil)
	_ = err

	replies, ok := vStrictStream(conn.out)
	vsymAssert(ok, "reply-stream-well-formed")
	if !ok {
		return
	}
	want := len(ends)
	if quitAt >= 0 {
		want = quitAt + 1
	}
	vsymAssert(len(replies) == want, "one-reply-per-request")
	if len(replies) != want {
		return
	}
	for i := 0; i < want; i++ {
		if i < want-1 || quitAt < 0 {
			// the reply to request i was complete before the server waited for input beyond it
			vsymAssert(seen[i], "server-continues-after-request")
			vsymAssert(outAt[i] == replies[i], "reply-written-before-waiting-for-more-input")
		}
	}
	vsymAssert(conn.closed, "connection-closed-at-end")
	if quitAt >= 0 {
		vsymCover("quit")
		q := conn.out
		if quitAt > 0 {
			q = conn.out[replies[quitAt-1]:]
		}
		vsymAssert(vBytesEq(q, []byte("+OK\r\n")), "quit-answered-ok")
		// nothing behind QUIT is consumed beyond the parser's own framing, executed or answered
		if cmd != "QUIT" {
			vsymAssert(!seen[len(ends)-1], "nothing-read-after-quit")
		}
	} else {
		last := conn.out[replies[want-2]:]
		vsymAssert(vBytesEq(last, []byte("+PONG\r\n")), "ping-after-request-answered")
		vsymCover("ping-answered")
	}
	if len(h.calls) > 0 {
		vsymCover("handler-called")
	}
	vsymCover("end")
}

func init() {
	vsymHarnesses["HarnessC03Stateful"] = HarnessC03Stateful
}

// HarnessC03Stateful: a pipeline of n requests that touch state kept by the framework itself
// (configuration, selected database, authorisation) with symbolic parameters - so that the same
// parameter/value can recur - followed by PING. Every request is answered; nothing stalls.
func HarnessC03Stateful() {
	n := vsymParamInt("requests", 3)
	vsymUnwind(300)
	server := NewServer()
	server.SetCommandHandler(&vhandler{mode: 0})
	var in []byte
	for i := 0; i < n; i++ {
		switch vsymChoice("request", 6) {
		case 0:
			in = append(in, vReq([]byte("CONFIG"), []byte("SET"), vsymBytes("param", 1), vsymBytes("value", 1))...)
		case 1:
			in = append(in, vReq([]byte("CONFIG"), []byte("GET"), vsymBytes("param", 1))...)
		case 2:
			in = append(in, vReq([]byte("CONFIG"), []byte("SET"), []byte("port"), []byte("6379"))...)
		case 3:
			in = append(in, vReq([]byte("SELECT"), vsymBytes("db", 1))...)
		case 4:
			in = append(in, vReq([]byte("AUTH"), vsymBytes("pw", 1))...)
		case 5:
			in = append(in, vReq([]byte("CONFIG"), []byte("SET"), []byte("requirepass"), vsymBytes("value", 1))...)
		}
	}
	in = append(in, vReqS("PING")...)
	conn := newVconn(in)
	server.receive(conn, nil)
	ends, ok := vStrictStream(conn.out)
	vsymAssert(ok && len(ends) == n+1, "one-reply-per-request")
	vsymAssert(conn.closed, "connection-closed-at-end")
	vsymCover("end")
}
