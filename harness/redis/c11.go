package redis

func init() {
	vsymHarnesses["HarnessC11Cut"] = HarnessC11Cut
}

type vIntent struct {
	args   [][]byte
	method string // expected handler method ("" = system command)
}

// vSmallRequest draws one well-formed request from a small grammar with symbolic payload bytes.
func vSmallRequest() vIntent {
	k := vsymBytes("key", 1)
	switch vsymChoice("req", 8) {
	case 0:
		return vIntent{[][]byte{[]byte("GET"), k}, "Get"}
	case 1:
		return vIntent{[][]byte{[]byte("SET"), k, vsymBytes("val", vsymLen("vlen", 2))}, "Set"}
	case 2:
		return vIntent{[][]byte{[]byte("LPOP"), k, []byte("5")}, "LPop"}
	case 3:
		return vIntent{[][]byte{[]byte("MSET"), k, vsymBytes("val", 1)}, "Set"}
	case 4:
		return vIntent{[][]byte{[]byte("DEL"), k, vsymBytes("key2", 1)}, "Del"}
	case 5:
		return vIntent{[][]byte{[]byte("ZADD"), k, []byte("1"), vsymBytes("m", 1)}, "ZAdd"}
	case 6:
		return vIntent{[][]byte{[]byte("LRANGE"), k, []byte("0"), []byte("-1")}, "LRange"}
	}
	return vIntent{[][]byte{[]byte("PING")}, ""}
}

// HarnessC11Cut: a pipeline of well-formed requests whose stream ends (half-close or reset) at an
// arbitrary byte offset. Exactly the requests that were delivered completely are executed and
// answered, once each, with their own arguments; the connection is released.
func HarnessC11Cut() {
	R := vsymParamInt("requests", 2)
	vsymUnwind(256)
	server := NewServer()
	h := &vhandler{mode: 0}
	server.SetCommandHandler(h)
	var in []byte
	var ends []int
	var intents []vIntent
	for i := 0; i < R; i++ {
		it := vSmallRequest()
		intents = append(intents, it)
		in = append(in, vReq(it.args...)...)
		ends = append(ends, len(in))
	}
	conn := newVconn(in)
	conn.cut = vsymChoice("cut", len(in)+1)
	// how the stream ends: half-close (EOF), reset, or a peer that has also stopped reading (its
	// receive side is shut down): from some reply on every write fails although the requests it had
	// already sent can still be read
	deaf := false
	switch vsymChoice("reset", 3) {
	case 1:
		conn.reset = true
	case 2:
		conn.failWrite = vsymChoice("write-fails-from", R)
		deaf = true
		vsymCover("peer-stopped-reading")
	}
	err := server.receive(conn, nil)
	_ = err
	complete := 0
	for _, e := range ends {
		if e <= conn.cut {
			complete++
		}
	}
	if conn.cut < len(in) {
		vsymCover("cut-inside-stream")
	}
	// expected handler calls: one per completely delivered request that maps to the handler
	want := 0
	for i := 0; i < complete; i++ {
		if intents[i].method != "" {
			want++
		}
	}
	vsymAssert(len(h.calls) == want, "handler-called-exactly-for-complete-requests")
	if len(h.calls) == want {
		ci := 0
		for i := 0; i < complete; i++ {
			it := intents[i]
			if it.method == "" {
				continue
			}
			c := h.calls[ci]
			ci++
			vsymAssert(c.method == it.method, "call-is-the-request's-operation")
			vsymAssert(len(c.strs) >= 1 && c.strs[0] == string(it.args[1]), "call-carries-the-request's-key")
			if it.method == "LPop" {
				vsymAssert(len(c.ints) == 1 && c.ints[0] == 5, "count-not-fabricated")
			}
			if it.method == "Set" {
				vsymAssert(len(c.strs) == 2 && c.strs[1] == string(it.args[2]), "value-not-fabricated")
			}
		}
	}
	replies, ok := vStrictStream(conn.out)
	vsymAssert(ok, "reply-stream-well-formed")
	if ok {
		if conn.reset || deaf {
			// writes may start failing once the peer has reset; replies written are for complete requests only
			vsymAssert(len(replies) <= complete, "no-reply-for-incomplete-request")
		} else {
			vsymAssert(len(replies) == complete, "one-reply-per-complete-request")
		}
	}
	vsymAssert(conn.closed, "socket-closed")
	vsymAssert(len(server.Conns()) == 0, "left-the-connection-registry")
	vsymCover("end")
}
