package redis

import (
	"context"

	"github.com/cybergarage/go-tracing/tracer"
)

func init() {
	vsymHarnesses["HarnessC20Spans"] = HarnessC20Spans
}

// vtrace is a recording tracer: every span start and finish is an event.
type vtrace struct {
	events []vtraceEvent
	spans  int
}

type vtraceEvent struct {
	start  bool
	id     int
	parent int
	name   string
}

type vspan struct {
	t      *vtrace
	id     int
	parent int
}

type vspanCtx struct {
	spans []tracer.Span
}

func (c *vspanCtx) Span() tracer.Span {
	if len(c.spans) == 0 {
		return nil
	}
	return c.spans[len(c.spans)-1]
}
func (c *vspanCtx) StartSpan(name string) bool {
	if len(c.spans) == 0 {
		return false
	}
	child := c.spans[len(c.spans)-1].StartSpan(name)
	c.spans = append(c.spans, child.Span())
	return true
}
func (c *vspanCtx) FinishSpan() bool {
	if len(c.spans) == 0 {
		return false
	}
	s := c.spans[len(c.spans)-1]
	c.spans = c.spans[:len(c.spans)-1]
	s.Finish()
	return true
}

func (t *vtrace) newSpan(parent int, name string) *vspan {
	t.spans++
	s := &vspan{t: t, id: t.spans, parent: parent}
	t.events = append(t.events, vtraceEvent{start: true, id: s.id, parent: parent, name: name})
	return s
}

func (s *vspan) SetTag(key string, value any) {}
func (s *vspan) Finish() {
	s.t.events = append(s.t.events, vtraceEvent{start: false, id: s.id, parent: s.parent})
}
func (s *vspan) Context() context.Context { return nil }
func (s *vspan) StartSpan(name string) tracer.Context {
	return &vspanCtx{spans: []tracer.Span{s.t.newSpan(s.id, name)}}
}

func (t *vtrace) SetPackageName(string)  {}
func (t *vtrace) SetServiceName(string)  {}
func (t *vtrace) SetEndpoint(string)     {}
func (t *vtrace) PackageName() string    { return "" }
func (t *vtrace) ServiceName() string    { return "" }
func (t *vtrace) Endpoint() string       { return "" }
func (t *vtrace) Start() error           { return nil }
func (t *vtrace) Stop() error            { return nil }
func (t *vtrace) StartSpan(name string) tracer.Context {
	return &vspanCtx{spans: []tracer.Span{t.newSpan(0, name)}}
}

// balanced checks: every span is finished exactly once; a child starts after its parent started and
// finishes before its parent finishes; nothing is left open. Returns the number of root spans.
func (t *vtrace) check() int {
	n := t.spans
	started := make([]int, n+1)
	finished := make([]int, n+1)
	open := make([]bool, n+1)
	roots := 0
	for _, e := range t.events {
		if e.start {
			started[e.id]++
			open[e.id] = true
			if e.parent == 0 {
				roots++
			} else {
				vsymAssert(open[e.parent], "child-starts-while-parent-open")
			}
			continue
		}
		finished[e.id]++
		vsymAssert(open[e.id], "finish-of-a-span-that-is-not-open")
		open[e.id] = false
		// no child of this span may still be open
		for _, f := range t.events {
			if f.start && f.parent == e.id {
				vsymAssert(!open[f.id], "parent-finished-before-child")
			}
		}
	}
	for id := 1; id <= n; id++ {
		vsymAssert(started[id] == 1, "span-started-once")
		vsymAssert(finished[id] == 1, "span-finished-exactly-once")
	}
	return roots
}

// HarnessC20Spans: a pipeline of requests with every outcome (success, argument error, unknown
// command, unauthorised, QUIT, protocol error, disconnect inside a request) with a tracer installed.
func HarnessC20Spans() {
	cmd := vsymParam("cmd")
	vsymTag("cmd", cmd)
	vsymUnwind(4000)
	server := NewServer()
	tr := &vtrace{}
	server.SetTracer(tr)
	h := &vhandler{mode: 1}
	server.SetCommandHandler(h)
	auth := vsymChoice("requirepass", 2) == 1
	if auth {
		server.SetRequirePass("pw")
		vsymCover("unauthorised")
	}
	args := vLooseArgs(vsymParamInt("maxargs", 2), 1, false)
	var in []byte
	requests := 0
	add := func(b []byte) {
		in = append(in, b...)
		requests++
	}
	add(vReq(append([][]byte{[]byte(cmd)}, args...)...))
	switch vsymChoice("tail", 4) {
	case 0:
		add(vReqS("PING"))
	case 1:
		add(vReqS("QUIT"))
		add(vReqS("PING"))
		vsymCover("quit")
	case 2:
		in = append(in, '?', 'x', '\r', '\n') // protocol error: unknown type byte
		vsymCover("protocol-error")
	case 3:
		add(vReqS("nosuchcommand"))
	}
	conn := newVconn(in)
	switch vsymChoice("cutmode", 3) {
	case 1:
		conn.cut = vsymChoice("cut", len(in))
		vsymCover("disconnect-inside")
	case 2:
		// the client stopped reading: the first or second reply and all later ones cannot be written
		conn.failWrite = vsymChoice("write-fails-from", 2)
		vsymCover("write-failure")
	}
	server.receive(conn, nil)
	roots := tr.check()
	vsymAssert(roots >= 1, "one-root-span-per-loop-iteration")
	vsymCover("end")
}
