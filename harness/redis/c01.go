package redis

import (
	"math"

	"github.com/cybergarage/go-redis/redis/proto"
)

func init() {
	vsymHarnesses["HarnessC01Ctors"] = HarnessC01Ctors
	vsymHarnesses["HarnessC01Int"] = HarnessC01Int
	vsymHarnesses["HarnessC01Float"] = HarnessC01Float
}

func c01RoundTrip(m *Message) *Message {
	b, err := m.RESPBytes()
	vsymAssert(err == nil, "serialise-no-error")
	got, err := proto.NewParserWithBytes(b).Next()
	vsymAssert(err == nil && got != nil, "parse-ok")
	if err != nil || got == nil {
		vsymEnd()
	}
	return got
}

// HarnessC01Ctors: values built with the public constructors decode back to the Go value they were built from.
func HarnessC01Ctors() {
	n := vsymParamInt("strlen", 3)
	vsymUnwind(128)
	switch vsymChoice("ctor", 6) {
	case 0:
		got := c01RoundTrip(NewOKMessage())
		s, err := got.String()
		vsymAssert(err == nil && got.IsString() && s == "OK", "ok-decodes-to-OK")
		vsymCover("ok")
	case 1:
		v := vsymString("status", vsymLen("len", n))
		for i := 0; i < len(v); i++ {
			vsymAssume(v[i] != '\r' && v[i] != '\n')
		}
		got := c01RoundTrip(NewStringMessage(v))
		s, err := got.String()
		vsymAssert(err == nil && got.IsString() && s == v, "status-decodes-to-its-string")
		vsymCover("status")
	case 2:
		v := vsymString("error", vsymLen("len", n))
		for i := 0; i < len(v); i++ {
			vsymAssume(v[i] != '\r' && v[i] != '\n')
		}
		got := c01RoundTrip(NewErrorMessage(&vErr{v}))
		e, err := got.Error()
		vsymAssert(err == nil && got.IsError() && e != nil && e.Error() == v, "error-decodes-to-its-text")
		vsymCover("error")
	case 3:
		v := vsymString("bulk", vsymLen("len", n))
		got := c01RoundTrip(NewBulkMessage(v))
		s, err := got.String()
		vsymAssert(err == nil && got.IsBulk() && !got.IsNil() && s == v, "bulk-decodes-to-its-string")
		vsymCover("bulk")
	case 4:
		got := c01RoundTrip(NewNilMessage())
		vsymAssert(got.IsBulk() && got.IsNil(), "nil-decodes-to-null")
		vsymCover("nil")
	case 5:
		k := vsymLen("count", 3)
		var strs []string
		for i := 0; i < k; i++ {
			strs = append(strs, vsymString("elem", vsymLen("len", 2)))
		}
		got := c01RoundTrip(NewStringArrayMessage(strs))
		arr, err := got.Array()
		vsymAssert(err == nil && arr != nil && arr.Size() == k, "array-decodes-with-same-arity")
		if err == nil && arr != nil && arr.Size() == k {
			for i := 0; i < k; i++ {
				s, err := arr.NextString()
				vsymAssert(err == nil && s == strs[i], "array-element-decodes-in-order")
			}
		}
		vsymCover("strings")
	}
	vsymCover("end")
}

// HarnessC01Int: NewIntegerMessage(v) decodes back to v for every int.
func HarnessC01Int() {
	vsymUnwind(128)
	v := vsymInt("v")
	got := c01RoundTrip(NewIntegerMessage(v))
	i, err := got.Integer()
	vsymAssert(err == nil && got.IsInteger(), "integer-type")
	vsymAssert(i == v, "integer-decodes-to-its-value")
	if v < 0 {
		vsymCover("negative")
	}
	if v >= 1000000000000000000 {
		vsymCover("digits19")
	}
	vsymCover("end")
}

// HarnessC01Float: NewFloatMessage on a witness list (shortest round-trip formatting is strconv's).
func HarnessC01Float() {
	vsymUnwind(128)
	ws := []float64{0, 0.1, 1.0 / 3.0, 1e21, 5e-324, math.MaxFloat64, 123456.789, -2.5, 1e-7, 100,
		1e6, 1e15, 9007199254740992, 9007199254740993, 9223372036854775807, 9223372036854775808, 9.5e18, -9.5e18, -9223372036854775808,
		1e19, 18446744073709551615, 1e20, 4294967296, 2147483648, -1, 1e-320, 123456789012345678}
	f := ws[vsymChoice("witness", len(ws))]
	got := c01RoundTrip(NewFloatMessage(f))
	s, err := got.String()
	vsymAssert(err == nil && got.IsBulk(), "float-is-bulk")
	back, perr := parseFloat64(s)
	vsymAssert(perr == nil && back == f, "float-decodes-to-its-value")
	vsymCover("end")
}
