package redis

func init() {
	vsymHarnesses["HarnessC13Conns"] = HarnessC13Conns
	vsymHarnesses["HarnessC13Select"] = HarnessC13Select
	vsymHarnesses["HarnessC08TwoConns"] = HarnessC08TwoConns
}

type vConnPlan struct {
	in      []byte
	wantDB  []int  // database the handler must see at each of this connection's handler calls
	wantUD  []byte // user data value the UGET command must return, per UGET
	replies int
	conn    *vconn
	calls   int
	ugets   int
}

// vPlanRequests draws n requests for one connection and computes, from this connection's own
// history only, what every handler call on it must observe.
func vPlanRequests(n int, password string, needAuth bool) *vConnPlan {
	pl := &vConnPlan{}
	db := 0
	authed := !needAuth
	var ud []byte
	for i := 0; i < n; i++ {
		switch vsymChoice("request", 6) {
		case 0:
			d := vsymByte("db")
			vsymAssume(d >= '0' && d <= '9')
			pl.in = append(pl.in, vReq([]byte("SELECT"), []byte{d})...)
			if authed {
				db = int(d - '0')
			}
		case 1:
			pl.in = append(pl.in, vReqS("AUTH", password)...)
			authed = true
		case 2:
			pl.in = append(pl.in, vReqS("AUTH", password+"x")...)
		case 3:
			pl.in = append(pl.in, vReqS("GET", "k")...)
			if authed {
				pl.wantDB = append(pl.wantDB, db)
			}
		case 4:
			v := vsymByte("udata")
			pl.in = append(pl.in, vReq([]byte("USET"), []byte{v})...)
			if authed {
				ud = []byte{v}
			}
		case 5:
			pl.in = append(pl.in, vReqS("UGET")...)
			if authed {
				if ud == nil {
					pl.wantUD = append(pl.wantUD, 0, 0)
				} else {
					pl.wantUD = append(pl.wantUD, 1, ud[0])
				}
			}
		}
		pl.replies++
	}
	pl.conn = newVconn(pl.in)
	pl.conn.yield = true
	return pl
}

func vPlanFixed(password string) *vConnPlan {
	pl := &vConnPlan{}
	pl.in = append(pl.in, vReqS("AUTH", password)...)
	pl.in = append(pl.in, vReqS("SELECT", "7")...)
	pl.in = append(pl.in, vReqS("USET", "z")...)
	pl.in = append(pl.in, vReqS("GET", "k")...)
	pl.in = append(pl.in, vReqS("UGET")...)
	pl.wantDB = []int{7}
	pl.wantUD = []byte{1, 'z'}
	pl.replies = 5
	pl.conn = newVconn(pl.in)
	pl.conn.yield = true
	return pl
}

// HarnessC13Conns: two connections served concurrently by the real connection loop. Every handler
// call observes the database, authorisation and user data of its own connection's history.
func HarnessC13Conns() {
	n := vsymParamInt("requests", 2)
	vsymSchedBound(vsymParamInt("preempt", 2))
	vsymUnwind(400)
	server := NewServer()
	h := &vhandler{mode: 0}
	server.SetCommandHandler(h)
	needAuth := vsymParamInt("requirepass", 0) == 1
	if needAuth {
		server.SetRequirePass("pw")
	}
	if err := server.Start(); err != nil {
		vsymFail("start-failed")
		return
	}
	// connection A draws its program from the whole alphabet; connection B is a fixed "disturber"
	// that authenticates, selects another database and stores user data of its own
	plans := []*vConnPlan{vPlanRequests(n, "pw", needAuth), vPlanFixed("pw")}
	find := func(c *Conn) *vConnPlan {
		for _, pl := range plans {
			if c.Conn == pl.conn {
				return pl
			}
		}
		return nil
	}
	// per-connection user data kept in the connection's own sync.Map
	server.RegisterExexutor("USET", func(conn *Conn, cmd string, args Arguments) (*Message, error) {
		v, err := args.NextString()
		if err != nil {
			return nil, err
		}
		conn.Store("ud", v)
		return NewOKMessage(), nil
	})
	server.RegisterExexutor("UGET", func(conn *Conn, cmd string, args Arguments) (*Message, error) {
		pl := find(conn)
		v, ok := conn.Load("ud")
		i := pl.ugets
		pl.ugets++
		if 2*i+1 < len(pl.wantUD) {
			if pl.wantUD[2*i] == 0 {
				vsymAssert(!ok, "user-data-starts-empty-and-is-not-another-connection's")
			} else {
				s, _ := v.(string)
				vsymAssert(ok && len(s) == 1 && s[0] == pl.wantUD[2*i+1], "user-data-is-this-connection's-own")
			}
		} else {
			vsymFail("unexpected-user-data-read")
		}
		return NewOKMessage(), nil
	})
	h.onCall = func(h *vhandler, c *vcall) {
		pl := find(c.conn)
		if pl == nil {
			vsymFail("handler-call-on-unknown-connection")
			return
		}
		if pl.calls < len(pl.wantDB) {
			vsymAssert(c.db == pl.wantDB[pl.calls], "handler-sees-this-connection's-database")
		} else {
			vsymFail("handler-call-not-justified-by-this-connection's-history")
		}
		vsymAssert(c.authed, "handler-sees-authorised-connection")
		pl.calls++
	}
	for _, pl := range plans {
		pl := pl
		go server.receive(pl.conn, nil)
	}
	vsymQuiesce()
	for _, pl := range plans {
		vsymAssert(pl.calls == len(pl.wantDB), "every-justified-call-happened")
		ends, ok := vStrictStream(pl.conn.out)
		vsymAssert(ok && len(ends) == pl.replies, "each-connection-gets-its-own-replies")
	}
	// a connection opened after the others have gone starts from the defaults: database 0, no user
	// data, not authorised when a password is required - nothing of an earlier connection is inherited
	late := &vConnPlan{replies: 2}
	late.in = append(vReqS("UGET"), vReqS("GET", "k")...)
	if !needAuth {
		late.wantUD = []byte{0, 0}
		late.wantDB = []int{0}
	}
	late.conn = newVconn(late.in)
	plans = append(plans, late)
	server.receive(late.conn, nil)
	vsymAssert(late.calls == len(late.wantDB), "later-connection-starts-from-defaults")
	if needAuth {
		vsymAssert(vBytesEq(late.conn.out, []byte("-not authrized\r\n-not authrized\r\n")), "later-connection-starts-unauthorised")
	} else {
		vsymAssert(late.ugets == 1, "later-connection-user-data-read-happened")
	}
	vsymCover("end")
}

// HarnessC08TwoConns: authorisation is per connection: B's successful AUTH never lets A's command through.
func HarnessC08TwoConns() {
	vsymSchedBound(vsymParamInt("preempt", 2))
	vsymUnwind(400)
	P := vsymBytes("password", 1+vsymChoice("passlen", vsymParamInt("passlen", 1)))
	server := NewServer()
	h := &vhandler{mode: 0}
	server.SetCommandHandler(h)
	server.SetRequirePass(string(P))
	if err := server.Start(); err != nil {
		vsymFail("start-failed")
		return
	}
	a := newVconn(append(vReqS("GET", "a"), vReqS("GET", "a2")...))
	b := newVconn(append(vReq([]byte("AUTH"), P), vReqS("GET", "b")...))
	a.yield, b.yield = true, true
	h.onCall = func(h *vhandler, c *vcall) {
		vsymAssert(c.conn.Conn == b, "only-the-authenticated-connection-reaches-the-handler")
	}
	go server.receive(a, nil)
	go server.receive(b, nil)
	vsymQuiesce()
	vsymAssert(vBytesEq(a.out, []byte("-not authrized\r\n-not authrized\r\n")), "other-connection-stays-unauthorised")
	vsymAssert(vBytesEq(b.out, []byte("+OK\r\n+OK\r\n")), "authenticated-connection-is-served")
	vsymAssert(len(h.calls) == 1, "exactly-the-authorised-command-ran")
	vsymCover("end")
}

// HarnessC13Select: connection-scoped state changes only through the connection's own successful
// commands. One connection: SELECT with an arbitrary token, a data command, SELECT with another
// token, a data command. Whatever the token, the database the handler sees afterwards is the one
// last selected with a SELECT that was answered +OK; a refused SELECT leaves it where it was.
func HarnessC13Select() {
	vsymUnwind(400)
	server := NewServer()
	h := &vhandler{mode: 0}
	server.SetCommandHandler(h)
	boundary := []string{"-1", "-2", "+5", "007", "99999999999999999999", "-9223372036854775808", "9223372036854775807", "1.5", " 1", "", "0x10"}
	tok := func(label string) []byte {
		if vsymChoice(label+".kind", 2) == 1 {
			return []byte(boundary[vsymChoice(label+".boundary", len(boundary))])
		}
		return vsymBytes(label, 1+vsymChoice(label+".len", 2))
	}
	t1, t2 := tok("first"), tok("second")
	in := vReq([]byte("SELECT"), t1)
	in = append(in, vReqS("GET", "k")...)
	in = append(in, vReq([]byte("select"), t2)...)
	in = append(in, vReqS("GET", "k")...)
	in = append(in, vReqS("SELECT")...) // no argument at all: refused
	in = append(in, vReqS("GET", "k")...)
	conn := newVconn(in)
	server.receive(conn, nil)
	ends, ok := vStrictStream(conn.out)
	vsymAssert(ok && len(ends) == 6, "six-replies")
	if !ok || len(ends) != 6 {
		return
	}
	vsymAssert(len(h.calls) == 3, "three-handler-calls")
	if len(h.calls) != 3 {
		return
	}
	reply := func(i int) []byte {
		start := 0
		if i > 0 {
			start = ends[i-1]
		}
		return conn.out[start:ends[i]]
	}
	db := 0
	for i, t := range [][]byte{t1, t2, nil} {
		r := reply(2 * i)
		if vBytesEq(r, []byte("+OK\r\n")) {
			vsymAssert(t != nil, "select-without-argument-is-refused")
			if gIsDecimal(t) && len(t) <= 3 {
				v := 0
				neg := false
				for _, c := range t {
					switch {
					case c == '-':
						neg = true
					case c == '+':
					default:
						v = v*10 + int(c-'0')
					}
				}
				if neg {
					v = -v
				}
				db = v
				vsymAssert(h.calls[i].db == db, "handler-sees-the-selected-database")
			} else {
				// some other accepted spelling: the handler must at least see one stable value from now on
				db = h.calls[i].db
			}
			vsymCover("select-accepted")
		} else {
			vsymAssert(len(r) > 0 && r[0] == '-', "select-is-answered-ok-or-error")
			vsymAssert(h.calls[i].db == db, "refused-select-leaves-the-database-unchanged")
			vsymCover("select-refused")
		}
		vsymAssert(h.calls[i].db == db, "database-persists-until-the-next-successful-select")
	}
	vsymCover("end")
}
