package redis

import "strconv"

func init() {
	vsymHarnesses["HarnessC16Atomic"] = HarnessC16Atomic
}

// c16store: reference store whose primitive operations are atomic (no scheduling point inside a
// primitive; one before each, so that the engine can interleave clients between handler calls).
type c16store struct {
	vstore
}

func (s *c16store) Get(conn *Conn, key string) (*Message, error) {
	vsymYield()
	return s.vstore.Get(conn, key)
}

func (s *c16store) Set(conn *Conn, key string, val string, opt SetOption) (*Message, error) {
	vsymYield()
	i := s.find(key)
	old := ""
	had := i >= 0
	if had {
		old = s.vals[i]
	}
	r, err := s.vstore.Set(conn, key, val, opt)
	if opt.GET && err == nil {
		if had {
			return NewBulkMessage(old), nil
		}
		return NewNilMessage(), nil
	}
	return r, err
}

func (s *c16store) Del(conn *Conn, keys []string) (*Message, error) {
	vsymYield()
	n := 0
	for _, k := range keys {
		if i := s.find(k); i >= 0 {
			s.keys = append(append([]string{}, s.keys[:i]...), s.keys[i+1:]...)
			s.vals = append(append([]string{}, s.vals[:i]...), s.vals[i+1:]...)
			n++
		}
	}
	return NewIntegerMessage(n), nil
}

type c16state struct {
	k, j       string
	hasK, hasJ bool
}

// c16Apply is the sequential Redis model of one command; it returns the reply bytes and the new state.
func c16Apply(st c16state, cmd string) ([]byte, c16state) {
	bulkOrNil := func(has bool, v string) []byte {
		if !has {
			return []byte("$-1\r\n")
		}
		return vBulk([]byte(v))
	}
	switch cmd {
	case "GET":
		return bulkOrNil(st.hasK, st.k), st
	case "SET":
		st.k, st.hasK = "s", true
		return []byte("+OK\r\n"), st
	case "SETNX":
		if st.hasK {
			return vInt(0), st
		}
		st.k, st.hasK = "n", true
		return vInt(1), st
	case "SETNX2":
		if st.hasK {
			return vInt(0), st
		}
		st.k, st.hasK = "m", true
		return vInt(1), st
	case "GETSET":
		r := bulkOrNil(st.hasK, st.k)
		st.k, st.hasK = "g", true
		return r, st
	case "INCR", "DECRBY":
		cur := 0
		if st.hasK {
			v, err := strconv.Atoi(st.k)
			if err != nil {
				return []byte("-ERR\r\n"), st
			}
			cur = v
		}
		if cmd == "INCR" {
			cur++
		} else {
			cur -= 3
		}
		st.k, st.hasK = strconv.Itoa(cur), true
		return vInt(cur), st
	case "APPEND":
		if !st.hasK {
			st.k = ""
		}
		st.k, st.hasK = st.k+"ab", true
		return vInt(len(st.k)), st
	case "MSETNX":
		if st.hasK || st.hasJ {
			return vInt(0), st
		}
		st.k, st.hasK, st.j, st.hasJ = "1", true, "2", true
		return vInt(1), st
	case "DEL":
		if st.hasK {
			st.hasK, st.k = false, ""
			return vInt(1), st
		}
		return vInt(0), st
	case "GETJ":
		return bulkOrNil(st.hasJ, st.j), st
	}
	return nil, st
}

func c16Request(cmd string) []byte {
	switch cmd {
	case "GET":
		return vReqS("GET", "k")
	case "GETJ":
		return vReqS("GET", "j")
	case "SET":
		return vReqS("SET", "k", "s")
	case "SETNX":
		return vReqS("SETNX", "k", "n")
	case "SETNX2":
		return vReqS("SETNX", "k", "m")
	case "GETSET":
		return vReqS("GETSET", "k", "g")
	case "INCR":
		return vReqS("INCR", "k")
	case "DECRBY":
		return vReqS("DECRBY", "k", "3")
	case "APPEND":
		return vReqS("APPEND", "k", "ab")
	case "MSETNX":
		return vReqS("MSETNX", "k", "1", "j", "2")
	case "DEL":
		return vReqS("DEL", "k")
	}
	return nil
}

// HarnessC16Atomic: two clients issue one command each concurrently. Whatever the interleaving of
// the handler operations, replies and final store must equal those of one of the two sequential orders.
func HarnessC16Atomic() {
	a, b := vsymParam("a"), vsymParam("b")
	vsymTag("pair", a+"+"+b)
	vsymSchedBound(vsymParamInt("preempt", 2))
	// clients are interleaved between handler operations (the store's primitives are atomic)
	vsymSchedKinds("yield,go")
	vsymUnwind(400)
	server := NewServer()
	st := &c16store{}
	server.SetCommandHandler(st)
	init := c16state{}
	switch vsymChoice("initial", 3) {
	case 1:
		init.k, init.hasK = "5", true
	case 2:
		init.k, init.hasK = "x", true
	}
	if init.hasK {
		st.keys, st.vals = []string{"k"}, []string{init.k}
	}
	ca, cb := newVconn(c16Request(a)), newVconn(c16Request(b))
	done := make([]bool, 2)
	go func() {
		server.receive(ca, nil)
		vsymSignal(&done[0])
	}()
	go func() {
		server.receive(cb, nil)
		vsymSignal(&done[1])
	}()
	vsymAwait(&done[0])
	vsymAwait(&done[1])
	final := c16state{}
	if i := st.find("k"); i >= 0 {
		final.k, final.hasK = st.vals[i], true
	}
	if i := st.find("j"); i >= 0 {
		final.j, final.hasJ = st.vals[i], true
	}
	// order A;B
	ra1, s1 := c16Apply(init, a)
	rb1, s1 := c16Apply(s1, b)
	// order B;A
	rb2, s2 := c16Apply(init, b)
	ra2, s2 := c16Apply(s2, a)
	errA := len(ca.out) > 0 && ca.out[0] == '-'
	errB := len(cb.out) > 0 && cb.out[0] == '-'
	same := func(got, want []byte, isErr bool) bool {
		if len(want) > 0 && want[0] == '-' {
			return isErr
		}
		return vBytesEq(got, want)
	}
	ab := same(ca.out, ra1, errA) && same(cb.out, rb1, errB) && final == s1
	ba := same(ca.out, ra2, errA) && same(cb.out, rb2, errB) && final == s2
	vsymAssert(ab || ba, "history-equals-a-sequential-order")
	vsymCover("end")
}
