package redis

import (
	"errors"
	"time"
)

// vcall is one recorded handler invocation with deep-copied arguments.
type vcall struct {
	method string
	strs   []string
	ints   []int
	flts   []float64
	bools  []bool
	durs   []time.Duration
	times  []time.Time
	conn   *Conn
	db     int
	authed bool
}

// vhandler is a recording UserCommandHandler / AuthCommandHandler double.
type vhandler struct {
	calls []vcall
	// reply policy: 0 canned OK, 1 symbolic choice of result shapes, 2 fixed message (fixed), 3 via replyFn
	mode    int
	fixed   *Message
	fixErr  error
	replyFn func(h *vhandler, method string) (*Message, error)
	onCall  func(h *vhandler, c *vcall)
	quiet   bool // record nothing (the double is then safe to call from several goroutines)
}

var errVHandler = errors.New("handler failure")

func (h *vhandler) rec(conn *Conn, c vcall) (*Message, error) {
	if h.quiet {
		return NewOKMessage(), nil
	}
	c.conn = conn
	if conn != nil {
		c.db = conn.Database()
		c.authed = conn.IsAuthrized()
	}
	h.calls = append(h.calls, c)
	if h.onCall != nil {
		h.onCall(h, &h.calls[len(h.calls)-1])
	}
	switch h.mode {
	case 1:
		return vResultChoice()
	case 2:
		return h.fixed, h.fixErr
	case 3:
		return h.replyFn(h, c.method)
	}
	return NewOKMessage(), nil
}

// vResultChoice draws one of the result shapes a handler may produce (concrete payloads).
func vResultChoice() (*Message, error) {
	switch vsymChoice("result", 7) {
	case 0:
		return NewOKMessage(), nil
	case 1:
		return NewIntegerMessage(7), nil
	case 2:
		return NewBulkMessage("v"), nil
	case 3:
		return NewNilMessage(), nil
	case 4:
		return NewStringArrayMessage([]string{"a", "b"}), nil
	case 5:
		return nil, errVHandler
	}
	return NewArrayMessage(), nil
}

func cp(ss []string) []string { return append([]string{}, ss...) }

func b2(b bool) bool { return b }

func (h *vhandler) Del(conn *Conn, keys []string) (*Message, error) {
	return h.rec(conn, vcall{method: "Del", strs: cp(keys)})
}
func (h *vhandler) Exists(conn *Conn, keys []string) (*Message, error) {
	return h.rec(conn, vcall{method: "Exists", strs: cp(keys)})
}
func (h *vhandler) Expire(conn *Conn, key string, opt ExpireOption) (*Message, error) {
	return h.rec(conn, vcall{method: "Expire", strs: []string{key}, times: []time.Time{opt.Time}, bools: []bool{opt.NX, opt.XX, opt.GT, opt.LT}})
}
func (h *vhandler) Keys(conn *Conn, pattern string) (*Message, error) {
	return h.rec(conn, vcall{method: "Keys", strs: []string{pattern}})
}
func (h *vhandler) Rename(conn *Conn, key string, newkey string, opt RenameOption) (*Message, error) {
	return h.rec(conn, vcall{method: "Rename", strs: []string{key, newkey}, bools: []bool{opt.NX}})
}
func (h *vhandler) Type(conn *Conn, key string) (*Message, error) {
	return h.rec(conn, vcall{method: "Type", strs: []string{key}})
}
func (h *vhandler) TTL(conn *Conn, key string) (*Message, error) {
	return h.rec(conn, vcall{method: "TTL", strs: []string{key}})
}
func (h *vhandler) Scan(conn *Conn, cursor int, opt ScanOption) (*Message, error) {
	pat := ""
	if opt.MatchPattern != nil {
		pat = opt.MatchPattern.String()
	}
	return h.rec(conn, vcall{method: "Scan", strs: []string{pat}, ints: []int{cursor, opt.Count, int(opt.Type)}})
}
func (h *vhandler) Set(conn *Conn, key string, val string, opt SetOption) (*Message, error) {
	return h.rec(conn, vcall{method: "Set", strs: []string{key, val}, durs: []time.Duration{opt.EX, opt.PX}, times: []time.Time{opt.EXAT, opt.PXAT}, bools: []bool{opt.NX, opt.XX, opt.KEEPTTL, opt.GET}})
}
func (h *vhandler) Get(conn *Conn, key string) (*Message, error) {
	return h.rec(conn, vcall{method: "Get", strs: []string{key}})
}
func (h *vhandler) HDel(conn *Conn, key string, fields []string) (*Message, error) {
	return h.rec(conn, vcall{method: "HDel", strs: append([]string{key}, fields...)})
}
func (h *vhandler) HSet(conn *Conn, key string, field string, val string, opt HSetOption) (*Message, error) {
	return h.rec(conn, vcall{method: "HSet", strs: []string{key, field, val}, bools: []bool{opt.NX}})
}
func (h *vhandler) HGet(conn *Conn, key string, field string) (*Message, error) {
	return h.rec(conn, vcall{method: "HGet", strs: []string{key, field}})
}
func (h *vhandler) HGetAll(conn *Conn, key string) (*Message, error) {
	return h.rec(conn, vcall{method: "HGetAll", strs: []string{key}})
}
func (h *vhandler) LPush(conn *Conn, key string, elements []string, opt PushOption) (*Message, error) {
	return h.rec(conn, vcall{method: "LPush", strs: append([]string{key}, elements...), bools: []bool{opt.X}})
}
func (h *vhandler) RPush(conn *Conn, key string, elements []string, opt PushOption) (*Message, error) {
	return h.rec(conn, vcall{method: "RPush", strs: append([]string{key}, elements...), bools: []bool{opt.X}})
}
func (h *vhandler) LPop(conn *Conn, key string, count int) (*Message, error) {
	return h.rec(conn, vcall{method: "LPop", strs: []string{key}, ints: []int{count}})
}
func (h *vhandler) RPop(conn *Conn, key string, count int) (*Message, error) {
	return h.rec(conn, vcall{method: "RPop", strs: []string{key}, ints: []int{count}})
}
func (h *vhandler) LRange(conn *Conn, key string, start int, stop int) (*Message, error) {
	return h.rec(conn, vcall{method: "LRange", strs: []string{key}, ints: []int{start, stop}})
}
func (h *vhandler) LIndex(conn *Conn, key string, index int) (*Message, error) {
	return h.rec(conn, vcall{method: "LIndex", strs: []string{key}, ints: []int{index}})
}
func (h *vhandler) LLen(conn *Conn, key string) (*Message, error) {
	return h.rec(conn, vcall{method: "LLen", strs: []string{key}})
}
func (h *vhandler) SAdd(conn *Conn, key string, members []string) (*Message, error) {
	return h.rec(conn, vcall{method: "SAdd", strs: append([]string{key}, members...)})
}
func (h *vhandler) SMembers(conn *Conn, key string) (*Message, error) {
	return h.rec(conn, vcall{method: "SMembers", strs: []string{key}})
}
func (h *vhandler) SRem(conn *Conn, key string, members []string) (*Message, error) {
	return h.rec(conn, vcall{method: "SRem", strs: append([]string{key}, members...)})
}
func (h *vhandler) ZAdd(conn *Conn, key string, members []*ZSetMember, opt ZAddOption) (*Message, error) {
	c := vcall{method: "ZAdd", strs: []string{key}, bools: []bool{opt.XX, opt.NX, opt.LT, opt.GT, opt.CH, opt.INCR}}
	for _, m := range members {
		c.strs = append(c.strs, m.Member)
		c.flts = append(c.flts, m.Score)
	}
	return h.rec(conn, c)
}
func zopt(opt ZRangeOption) ([]bool, []int) {
	return []bool{opt.BYSCORE, opt.BYLEX, opt.REV, opt.WITHSCORES, opt.MINEXCLUSIVE, opt.MAXEXCLUSIVE}, []int{opt.Offset, opt.Count}
}
func (h *vhandler) ZRange(conn *Conn, key string, start int, stop int, opt ZRangeOption) (*Message, error) {
	bs, is := zopt(opt)
	return h.rec(conn, vcall{method: "ZRange", strs: []string{key}, ints: append([]int{start, stop}, is...), bools: bs})
}
func (h *vhandler) ZRangeByScore(conn *Conn, key string, min float64, max float64, opt ZRangeOption) (*Message, error) {
	bs, is := zopt(opt)
	return h.rec(conn, vcall{method: "ZRangeByScore", strs: []string{key}, flts: []float64{min, max}, ints: is, bools: bs})
}
func (h *vhandler) ZRem(conn *Conn, key string, members []string) (*Message, error) {
	return h.rec(conn, vcall{method: "ZRem", strs: append([]string{key}, members...)})
}
func (h *vhandler) ZScore(conn *Conn, key string, member string) (*Message, error) {
	return h.rec(conn, vcall{method: "ZScore", strs: []string{key, member}})
}
func (h *vhandler) ZIncBy(conn *Conn, key string, inc float64, member string) (*Message, error) {
	return h.rec(conn, vcall{method: "ZIncBy", strs: []string{key, member}, flts: []float64{inc}})
}

// vCommandNames lists the executor table of a server in a deterministic order.
func vCommandNames(s *Server) []string {
	var names []string
	for k := range s.commandExecutors {
		names = append(names, k)
	}
	// insertion sort (the engine explores map orders; the harness wants one canonical list)
	for i := 1; i < len(names); i++ {
		for j := i; j > 0 && names[j] < names[j-1]; j-- {
			names[j], names[j-1] = names[j-1], names[j]
		}
	}
	return names
}
