package redis

func init() {
	vsymHarnesses["HarnessC04Reply"] = HarnessC04Reply
	vsymHarnesses["HarnessC04Raw"] = HarnessC04Raw
}

type vErr struct{ text string }

func (e *vErr) Error() string { return e.text }

// vFullResult draws from the full space of things a handler can hand back: every message type
// with arbitrary payload bytes, null, arrays (odd length, nested, with an absent element), a nil
// message, an error with arbitrary text, and message plus error together.
func vFullResult(h *vhandler, method string) (*Message, error) {
	n := 13
	if vsymParamInt("nilelem", 1) == 1 {
		n = 14
	}
	switch vsymChoice("result", n) {
	case 0:
		return NewStringMessage(vsymString("status", 2)), nil
	case 1:
		return NewErrorMessage(&vErr{vsymString("errmsg", 2)}), nil
	case 2:
		return NewMessageWithTypeBytes(2, vsymBytes("intpayload", 2)), nil
	case 3:
		return NewBulkMessage(vsymString("bulk", 2)), nil
	case 4:
		return NewNilMessage(), nil
	case 5:
		return NewStringArrayMessage([]string{vsymString("e0", 1), vsymString("e1", 1)}), nil
	case 6:
		return NewStringArrayMessage([]string{vsymString("e0", 1)}), nil
	case 7:
		return nil, nil
	case 8:
		return nil, &vErr{vsymString("err", 2)}
	case 9:
		return NewBulkMessage("x"), &vErr{vsymString("err", 1)}
	case 10:
		return NewArrayMessage(), nil
	case 11:
		inner := NewStringArrayMessage([]string{vsymString("e0", 1)})
		outer := NewArrayMessage()
		outer.Append(inner)
		return outer, nil
	case 12:
		return NewIntegerMessage(12), nil
	}
	// an array with an absent element
	arr := NewArrayMessage()
	arr.Append(NewBulkMessage("a"))
	arr.Append(nil)
	return arr, nil
}

// NewMessageWithTypeBytes builds a message of a line type with arbitrary payload bytes.
func NewMessageWithTypeBytes(t int, b []byte) *Message {
	m := NewIntegerMessage(0)
	m.SetBytes(b)
	return m
}

var vBoundaryInts = []string{"0", "1", "-1", "2147483647", "2147483648", "-2147483649", "9223372036854775806", "9223372036854775807", "-9223372036854775808", "9223372036854775808", "-9223372036854775809", "99999999999999999999", "1.5", "+5", "007"}

// vAdversarialArgs: arguments over all byte values (including CR, LF and RESP type bytes) or boundary integers.
func vAdversarialArgs(maxArgs, maxLen int, boundary bool) [][]byte {
	n := vsymLen("nargs", maxArgs)
	var args [][]byte
	for i := 0; i < n; i++ {
		if boundary && vsymChoice("argkind", 2) == 1 {
			args = append(args, []byte(vBoundaryInts[vsymChoice("boundary", len(vBoundaryInts))]))
			continue
		}
		l := vsymLen("arglen", maxLen)
		args = append(args, vsymBytes("arg", l))
	}
	return args
}

// HarnessC04Reply: one request [name args...] followed by PING. Whatever the client bytes and
// whatever the handler returns, everything written to the connection is a concatenation of
// complete RESP values (exactly two here), and nothing panics.
func HarnessC04Reply() {
	cmd := vsymParam("cmd")
	vsymTag("cmd", cmd)
	vsymUnwind(vsymParamInt("unwind", 256))
	server := NewServer()
	h := &vhandler{mode: 3, replyFn: vFullResult}
	if vsymParamInt("plainresults", 0) == 1 {
		h.mode = 1
	}
	server.SetCommandHandler(h)
	var name []byte
	if cmd == "?" {
		// an arbitrary (most likely unknown) command name
		name = vsymBytes("name", vsymLen("namelen", vsymParamInt("namelen", 3)))
	} else {
		name = []byte(cmd)
	}
	args := vAdversarialArgs(vsymParamInt("maxargs", 2), vsymParamInt("maxlen", 2), vsymParamInt("boundary", 0) == 1)
	in := vReq(append([][]byte{name}, args...)...)
	in = append(in, vReqS("PING")...)
	conn := newVconn(in)
	server.receive(conn, nil)
	ends, ok := vStrictStream(conn.out)
	vsymAssert(ok, "reply-stream-well-formed")
	if ok {
		quit := len(name) == 4 && (name[0]|0x20) == 'q' && (name[1]|0x20) == 'u' && (name[2]|0x20) == 'i' && (name[3]|0x20) == 't'
		if quit {
			vsymCover("quit")
			vsymAssert(len(ends) == 1, "one-reply-then-closed")
		} else {
			vsymAssert(len(ends) == 2, "two-complete-replies")
		}
		if len(ends) > 0 && conn.out[0] == '-' {
			vsymCover("error-reply")
		}
	}
	vsymAssert(conn.closed, "connection-closed-at-end")
	vsymCover("end")
}

// HarnessC04Raw: a request that is not an array of bulk strings - every top-level value type,
// arrays whose first element is null, empty, nested or absent - then PING.
func HarnessC04Raw() {
	vsymUnwind(256)
	server := NewServer()
	h := &vhandler{mode: 1}
	server.SetCommandHandler(h)
	var in []byte
	switch vsymChoice("shape", 11) {
	case 0:
		in = append([]byte{'+'}, vsymBytes("line", vsymLen("len", 2))...)
		in = append(in, '\r', '\n')
	case 1:
		in = append([]byte{'-'}, vsymBytes("line", vsymLen("len", 2))...)
		in = append(in, '\r', '\n')
	case 2:
		in = append([]byte{':'}, vsymBytes("line", vsymLen("len", 2))...)
		in = append(in, '\r', '\n')
	case 3:
		in = vBulk(vsymBytes("bulk", vsymLen("len", 2)))
	case 4:
		in = []byte("$-1\r\n")
	case 5:
		in = []byte("*0\r\n")
	case 6:
		in = []byte("*-1\r\n")
	case 7:
		in = []byte("*1\r\n$-1\r\n")
	case 8:
		in = []byte("*1\r\n*0\r\n")
	case 9:
		in = append([]byte("*2\r\n*1\r\n"), vBulk(vsymBytes("name", 2))...)
		in = append(in, vBulk(vsymBytes("arg", 1))...)
	case 10:
		in = append([]byte("*2\r\n"), vBulk([]byte{})...)
		in = append(in, []byte(":5\r\n")...)
	}
	for _, b := range in[1:] {
		_ = b
	}
	first := len(in)
	in = append(in, vReqS("PING")...)
	conn := newVconn(in)
	server.receive(conn, nil)
	_ = first
	ends, ok := vStrictStream(conn.out)
	vsymAssert(ok, "reply-stream-well-formed")
	if ok && len(ends) == 2 {
		vsymCover("both-answered")
		vsymAssert(vBytesEq(conn.out[ends[0]:], []byte("+PONG\r\n")), "ping-answered-after-odd-request")
	}
	if ok {
		// either both requests are answered, or the connection was dropped cleanly on a protocol error
		vsymAssert(len(ends) == 2 || len(ends) == 0 || len(ends) == 1, "complete-values-only")
	}
	vsymAssert(conn.closed, "connection-closed-at-end")
	vsymCover("end")
}
