package redis

import (
	"crypto/tls"
	"crypto/x509"
	"crypto/x509/pkix"
	"errors"
	"net"

	"github.com/cybergarage/go-redis/redis/auth"
)

func init() {
	vsymHarnesses["HarnessC09Gate"] = HarnessC09Gate
	vsymHarnesses["HarnessC09Handshakes"] = HarnessC09Handshakes
	vsymHarnesses["HarnessC09Config"] = HarnessC09Config
}

// HarnessC09Gate: a TLS connection whose certificate check fails is disconnected before any command
// is executed - even with complete requests already waiting - and never enters the registry.
func HarnessC09Gate() {
	vsymUnwind(400)
	server := NewServer()
	h := &vhandler{mode: 0}
	server.SetCommandHandler(h)
	server.AddAuthenticator(auth.NewCertificateAuthenticatorWith(auth.WithCommonName("client")))
	withPass := vsymChoice("requirepass", 2) == 1
	if withPass {
		server.SetRequirePass("pw")
		server.AddAuthenticator(auth.NewClearTextPasswordAuthenticatorWith("", "pw"))
	}
	// identity presented by the client
	var chain []*x509.Certificate
	kind := vsymChoice("identity", 5)
	switch kind {
	case 0: // no certificate
	case 1: // wrong name
		chain = []*x509.Certificate{{Subject: pkix.Name{CommonName: vsymString("cn", 1+vsymChoice("cnlen", 2))}}}
	case 2: // right name only on the issuer
		chain = []*x509.Certificate{{Subject: pkix.Name{CommonName: "other"}}, {Subject: pkix.Name{CommonName: "client"}}}
	case 3: // right leaf name
		chain = []*x509.Certificate{{Subject: pkix.Name{CommonName: "client"}}, {Subject: pkix.Name{CommonName: "ca"}}}
	case 4: // empty name
		chain = []*x509.Certificate{{Subject: pkix.Name{CommonName: ""}}}
	}
	state := &tls.ConnectionState{PeerCertificates: chain}
	var in []byte
	if withPass {
		in = append(in, vReqS("AUTH", "pw")...)
	}
	in = append(in, vReqS("GET", "k")...)
	in = append(in, vReqS("PING")...)
	conn := newVconn(in)
	regSeen := false
	conn.onRead = func(c *vconn) {
		if len(server.Conns()) > 0 {
			regSeen = true
		}
	}
	server.receive(conn, state)
	good := kind == 3
	if !good {
		vsymAssert(len(h.calls) == 0, "no-command-executed-for-rejected-certificate")
		vsymAssert(len(conn.out) == 0, "nothing-written-to-rejected-client")
		vsymAssert(conn.closed, "rejected-client-disconnected")
		vsymAssert(!regSeen && conn.pos == 0, "rejected-client-never-served")
		vsymCover("rejected")
	} else {
		vsymAssert(len(h.calls) == 1, "valid-client-is-served")
		vsymCover("accepted")
	}
	vsymAssert(len(server.Conns()) == 0, "registry-empty-at-end")
	vsymCover("end")
}

// ---- handshake containment (tls.Server / Handshake are stubbed by the engine) ----

var vtlsOutcome = map[net.Conn]int{} // 0 completes, 1 fails, 2 stalls forever
var vtlsNever bool
var errVHandshake = errors.New("tls: handshake failure")

func vtlsHandshake(inner net.Conn) error {
	switch vtlsOutcome[inner] {
	case 1:
		// the errors crypto/tls really returns: a plain alert error, or a RecordHeaderError with or without its Conn
		switch vsymChoice("handshake-error", 3) {
		case 1:
			return tls.RecordHeaderError{Msg: "first record does not look like a TLS handshake"}
		case 2:
			return tls.RecordHeaderError{Msg: "first record does not look like a TLS handshake", Conn: inner}
		}
		return errVHandshake
	case 2:
		vsymAwait(&vtlsNever)
	}
	return nil
}

func vtlsState(inner net.Conn) tls.ConnectionState {
	return tls.ConnectionState{PeerCertificates: []*x509.Certificate{{Subject: pkix.Name{CommonName: "client"}}}}
}

// HarnessC09Handshakes: clients whose handshake completes, fails or stalls arrive on the TLS port in
// any order; each failure is contained: later clients on the TLS port and on the plain port are served,
// no listener is closed, the failed socket is closed.
func HarnessC09Handshakes() {
	vsymSchedBound(vsymParamInt("preempt", 0))
	vsymUnwind(400)
	server := NewServer()
	h := &vhandler{mode: 0}
	server.SetCommandHandler(h)
	server.SetTLSPort(6380)
	server.SetTLSConfig(&tls.Config{})
	server.AddAuthenticator(auth.NewCertificateAuthenticatorWith(auth.WithCommonName("client")))
	if err := server.Start(); err != nil {
		vsymFail("start-failed")
		return
	}
	n := vsymParamInt("clients", 3)
	var conns []*vconn
	var outcomes []int
	for i := 0; i < n; i++ {
		c := newVconn(vReqS("PING"))
		o := vsymChoice("handshake", 3)
		if i == n-1 {
			o = 0 // the last TLS client is well-behaved
		}
		vtlsOutcome[c] = o
		conns = append(conns, c)
		outcomes = append(outcomes, o)
		vsymAssert(vDial(":6380", c), "tls-port-accepts")
		vsymQuiesce()
	}
	plain := newVconn(vReqS("PING"))
	vsymAssert(vDial(":6379", plain), "plain-port-accepts-after-handshake-faults")
	vsymQuiesce()
	for i, c := range conns {
		switch outcomes[i] {
		case 0:
			vsymAssert(vBytesEq(c.out, []byte("+PONG\r\n")), "well-behaved-tls-client-served")
		case 1:
			vsymAssert(c.closed && len(c.out) == 0, "failed-handshake-socket-closed")
			vsymCover("failed-handshake")
		case 2:
			vsymAssert(len(c.out) == 0, "stalled-handshake-gets-nothing")
			vsymCover("stalled-handshake")
		}
	}
	vsymAssert(vBytesEq(plain.out, []byte("+PONG\r\n")), "plain-client-served-after-handshake-faults")
	vsymAssert(!vPorts[":6380"].closed && !vPorts[":6379"].closed, "listeners-stay-open")
	vsymCover("end")
}

// HarnessC09Config: the TLS configuration generated from the server configuration requires and
// verifies client certificates against exactly the configured CA bytes.
func HarnessC09Config() {
	vsymUnwind(64)
	cfg := NewDefaultServerConfig()
	cfg.ServerCert = []byte("cert")
	cfg.ServerKey = []byte("key")
	cfg.CACerts = []byte("ca")
	tc, err := NewTLSConfigFrom(cfg)
	if err != nil {
		vsymCover("keypair-error")
		vsymCover("end")
		return
	}
	vsymAssert(tc.ClientAuth == tls.RequireAndVerifyClientCert, "client-certificate-required-and-verified")
	vsymAssert(tc.MinVersion >= tls.VersionTLS12, "tls12-or-newer")
	vsymAssert(tc.ClientCAs != nil, "client-ca-pool-set")
	vsymCover("end")
}
