package redis

import "time"

func init() {
	vsymHarnesses["HarnessC05Dispatch"] = HarnessC05Dispatch
	vsymHarnesses["HarnessC05Unknown"] = HarnessC05Unknown
}

// HarnessC05Dispatch: a well-formed request drawn from the independent grammar, command and
// option names in arbitrary letter case. The handler is invoked exactly as the intent says, on the
// connection the request arrived on, and what it returns is what the client receives.
func HarnessC05Dispatch() {
	cmd := vsymParam("cmd")
	vsymTag("cmd", cmd)
	gStrMax = vsymParamInt("strmax", 2)
	gIntDigits = vsymParamInt("digits", 2)
	gListMax = vsymParamInt("listmax", 2)
	vsymUnwind(400)
	server := NewServer()
	h := &vhandler{mode: 3}
	h.replyFn = func(h *vhandler, method string) (*Message, error) {
		// a distinct canned reply per call
		return NewBulkMessage("r" + string(rune('0'+len(h.calls)))), nil
	}
	server.SetCommandHandler(h)
	it, ok := gDraw(cmd)
	if !ok {
		vsymCover("not-in-grammar")
		return
	}
	req := vReq(append([][]byte{gWord(cmd)}, it.args...)...)
	conn := newVconn(req)
	t0 := time.Now()
	var hconn *Conn
	h.onCall = func(h *vhandler, c *vcall) { hconn = c.conn }
	server.receive(conn, nil)
	t1 := time.Now()
	if it.system {
		vsymAssert(len(h.calls) == 0, "system-command-does-not-reach-user-handler")
		vsymCover("end")
		return
	}
	vsymAssert(len(h.calls) == len(it.want), "handler-invoked-exactly-as-often-as-the-intent-says")
	if len(h.calls) != len(it.want) {
		return
	}
	if it.expireRel {
		// EXPIRE: the absolute time is "now + ttl seconds" for a "now" between two readings of the harness
		got := h.calls[0].times[0]
		d := time.Duration(it.ttl) * time.Second
		lo, hi := t0.Add(d), t1.Add(d)
		vsymAssert(!got.Before(lo) && !got.After(hi), "expire-time-is-now-plus-ttl")
		it.want[0].times[0] = got
	}
	if it.unordered {
		// every expected call occurs exactly once, in some order
		used := make([]bool, len(h.calls))
		for i := range it.want {
			found := false
			for j := range h.calls {
				if !used[j] && !found && gCallEq(&h.calls[j], &it.want[i]) {
					used[j] = true
					found = true
				}
			}
			vsymAssert(found, "key-value-pair-reaches-handler-with-last-value")
		}
	} else {
		for i := range it.want {
			vsymAssert(gCallEq(&h.calls[i], &it.want[i]), "arguments-reach-handler-exactly")
		}
	}
	for i := range h.calls {
		vsymAssert(h.calls[i].conn != nil && h.calls[i].conn.Conn == conn && h.calls[i].db == 0, "invoked-on-the-request's-connection")
	}
	_ = hconn
	// single-call commands: the handler's message is the reply
	composed := cmd == "MSET" || cmd == "MGET" || cmd == "HMSET" || cmd == "HMGET" || cmd == "ZREVRANGEBYSCORE"
	if len(it.want) == 1 && !composed {
		vsymAssert(vBytesEq(conn.out, []byte("$2\r\nr1\r\n")), "handler-result-is-the-reply")
	}
	vsymCover("end")
}

// HarnessC05Unknown: a name that is not registered (in any letter case) yields an error reply and
// no handler call; an executor registered by the application is dispatched under every case variant.
func HarnessC05Unknown() {
	vsymUnwind(8000)
	server := NewServer()
	h := &vhandler{mode: 0}
	server.SetCommandHandler(h)
	hit := 0
	server.RegisterExexutor("MYCMD", func(conn *Conn, cmd string, args Arguments) (*Message, error) {
		hit++
		return NewIntegerMessage(42), nil
	})
	if vsymChoice("kind", 2) == 0 {
		name := vsymBytes("name", 1+vsymChoice("namelen", vsymParamInt("namelen", 3)))
		for _, b := range name {
			vsymAssume(b < 0x80)
		}
		// not a registered name under upper-casing
		up := make([]byte, len(name))
		for i, b := range name {
			if b >= 'a' && b <= 'z' {
				b -= 32
			}
			up[i] = b
		}
		for _, reg := range vCommandNames(server) {
			vsymAssume(string(up) != reg)
		}
		conn := newVconn(vReq(name, []byte("x")))
		server.receive(conn, nil)
		vsymAssert(len(h.calls) == 0 && hit == 0, "unknown-command-invokes-nothing")
		ends, ok := vStrictStream(conn.out)
		vsymAssert(ok && len(ends) == 1 && conn.out[0] == '-', "unknown-command-gets-error-reply")
		vsymCover("unknown")
	} else {
		conn := newVconn(vReq(gWord("MYCMD")))
		server.receive(conn, nil)
		vsymAssert(hit == 1, "application-executor-dispatched-in-any-case")
		vsymAssert(vBytesEq(conn.out, []byte(":42\r\n")), "application-executor-reply")
		vsymCover("custom")
	}
	vsymCover("end")
}
