package proto

// Independent reference encoder / value model used as oracle by the proto harnesses.

type refNode struct {
	typ     int // 0 status, 1 error, 2 integer, 3 bulk, 4 array
	null    bool
	payload []byte
	kids    []*refNode
}

func refItoa(n int) []byte {
	if n == 0 {
		return []byte{'0'}
	}
	var tmp [20]byte
	i := len(tmp)
	for n > 0 {
		i--
		tmp[i] = byte('0' + n%10)
		n /= 10
	}
	return append([]byte{}, tmp[i:]...)
}

func refEncode(n *refNode) []byte {
	var out []byte
	switch n.typ {
	case 0, 1, 2:
		out = append(out, "+-:"[n.typ])
		out = append(out, n.payload...)
		out = append(out, '\r', '\n')
	case 3:
		out = append(out, '$')
		if n.null {
			out = append(out, '-', '1', '\r', '\n')
			return out
		}
		out = append(out, refItoa(len(n.payload))...)
		out = append(out, '\r', '\n')
		out = append(out, n.payload...)
		out = append(out, '\r', '\n')
	case 4:
		out = append(out, '*')
		out = append(out, refItoa(len(n.kids))...)
		out = append(out, '\r', '\n')
		for _, k := range n.kids {
			out = append(out, refEncode(k)...)
		}
	}
	return out
}

var refTypes = [5]MessageType{StringMessage, ErrorMessage, IntegerMessage, BulkMessage, ArrayMessage}

// refBuild constructs the library message for a reference node through the public API.
func refBuild(n *refNode) *Message {
	msg := NewMessageWithType(refTypes[n.typ])
	switch n.typ {
	case 4:
		arr := NewArray()
		for _, k := range n.kids {
			arr.Append(refBuild(k))
		}
		msg.SetArray(arr)
	case 3:
		if n.null {
			msg.SetBytes(nil)
		} else {
			// non-nil even when empty
			b := make([]byte, len(n.payload))
			copy(b, n.payload)
			msg.SetBytes(b)
		}
	default:
		msg.SetBytes(append([]byte{}, n.payload...))
	}
	return msg
}

func refBytesEq(a, b []byte) bool {
	if len(a) != len(b) {
		return false
	}
	ok := true
	for i := range a {
		if a[i] != b[i] {
			ok = false
		}
	}
	return ok
}

// refSame reports whether a parsed message equals the reference node (type, null-vs-empty, payload, structure).
func refSame(msg *Message, n *refNode) bool {
	if msg == nil {
		return false
	}
	if msg.Type != refTypes[n.typ] {
		return false
	}
	switch n.typ {
	case 4:
		arr, err := msg.Array()
		if err != nil || arr == nil {
			return false
		}
		if arr.Size() != len(n.kids) {
			return false
		}
		ok := true
		for i, k := range n.kids {
			if !refSame(arr.msgs[i], k) {
				ok = false
			}
		}
		return ok
	case 3:
		if n.null {
			return msg.IsNil()
		}
		if msg.IsNil() {
			return false
		}
		b, _ := msg.Bytes()
		return refBytesEq(b, n.payload)
	}
	b, _ := msg.Bytes()
	return refBytesEq(b, n.payload)
}

// refGen draws a value tree: all node types, payload bytes fully symbolic (line types exclude CR/LF).
func refGen(depth, maxArity, maxPayload int) *refNode {
	nt := 5
	if depth <= 0 {
		nt = 4
	}
	n := &refNode{typ: vsymChoice("type", nt)}
	switch n.typ {
	case 0, 1, 2:
		l := vsymLen("len", maxPayload)
		n.payload = vsymBytes("line", l)
		for _, b := range n.payload {
			vsymAssume(b != '\r')
			vsymAssume(b != '\n')
		}
	case 3:
		if vsymChoice("null", 2) == 1 {
			n.null = true
		} else {
			l := vsymLen("len", maxPayload)
			n.payload = vsymBytes("bulk", l)
		}
	case 4:
		ar := vsymLen("arity", maxArity)
		for i := 0; i < ar; i++ {
			n.kids = append(n.kids, refGen(depth-1, maxArity, maxPayload))
		}
	}
	return n
}
