package proto

var vsymHarnesses = map[string]func(){}
