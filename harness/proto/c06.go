package proto

func init() {
	vsymHarnesses["HarnessC06Bytes"] = HarnessC06Bytes
}

// HarnessC06Bytes: every byte string of length L fed to the parser; Next() must terminate without
// panic, without attacker-sized allocation, and never return an array with an absent element.
func HarnessC06Bytes() {
	L := vsymParamInt("L", 4)
	in := vsymBytes("in", L)
	vsymUnwind(4*L + 24)
	p := NewParserWithBytes(in)
	for i := 0; i <= L; i++ {
		msg, err := p.Next()
		if err != nil {
			vsymCover("error")
			break
		}
		if msg == nil {
			vsymCover("eos")
			break
		}
		vsymCover("value")
		c06NoAbsent(msg)
	}
	vsymCover("end")
}

func c06NoAbsent(msg *Message) {
	if msg.Type != ArrayMessage {
		return
	}
	vsymCover("array")
	vsymAssert(msg.array != nil, "array-present")
	if msg.array == nil {
		return
	}
	for _, e := range msg.array.msgs {
		vsymAssert(e != nil, "no-absent-element")
		if e != nil {
			c06NoAbsent(e)
		}
	}
}

func init() {
	vsymHarnesses["HarnessC06Template"] = HarnessC06Template
}

// HarnessC06Template: near-valid frames whose length/count field is D arbitrary bytes (so every
// boundary integer with D characters, signs and junk are inside the quantifier), followed by a few
// arbitrary bytes, with the stream ending anywhere.
func HarnessC06Template() {
	kind := vsymParam("kind")
	D := vsymParamInt("D", 1)
	var in []byte
	switch kind {
	case "bulk":
		in = append(in, '$')
	case "array":
		in = append(in, '*')
	case "nested":
		in = append(in, '*', '1', '\r', '\n', '*')
	}
	field := vsymBytes("len", D)
	if vsymParam("digits") == "1" {
		// decimal field: optional sign, then digits (arbitrary junk in the field is covered by HarnessC06Bytes)
		for i, b := range field {
			if i == 0 && D > 1 {
				vsymAssume(b == '-' || b == '+' || (b >= '0' && b <= '9'))
			} else {
				vsymAssume(b >= '0' && b <= '9')
			}
		}
	}
	in = append(in, field...)
	in = append(in, '\r', '\n')
	tail := vsymLen("tail", vsymParamInt("tail", 2))
	in = append(in, vsymBytes("tail", tail)...)
	vsymUnwind(4*len(in) + 24)
	p := NewParserWithBytes(in)
	for i := 0; i <= len(in); i++ {
		msg, err := p.Next()
		if err != nil {
			vsymCover("error")
			break
		}
		if msg == nil {
			vsymCover("eos")
			break
		}
		vsymCover("value")
		c06NoAbsent(msg)
	}
	vsymCover("end")
}


func init() {
	vsymHarnesses["HarnessC06Large"] = HarnessC06Large
}

// HarnessC06Large: a complete array of n elements (n around allocation boundaries, or - thorough -
// every n up to a bound through a symbolic count field) comes back with exactly n present elements.
func HarnessC06Large() {
	max := vsymParamInt("max", 0)
	n := vsymParamInt("n", 1025)
	vsymUnwind(n + max + 64)
	var in []byte
	if max > 0 {
		// symbolic count: 4 decimal digits, value <= max
		d := vsymBytes("count", 4)
		v := 0
		for _, b := range d {
			vsymAssume(b >= '0' && b <= '9')
			v = v*10 + int(b-'0')
		}
		vsymAssume(v <= max)
		in = append([]byte{'*'}, d...)
		n = max
	} else {
		in = append([]byte{'*'}, refItoa(n)...)
	}
	in = append(in, '\r', '\n')
	for i := 0; i < n; i++ {
		in = append(in, ':', '1', '\r', '\n')
	}
	msg, err := NewParserWithBytes(in).Next()
	vsymAssert(err == nil && msg != nil, "complete-array-parses")
	if err != nil || msg == nil {
		return
	}
	arr, aerr := msg.Array()
	vsymAssert(aerr == nil && arr != nil, "is-array")
	if aerr != nil || arr == nil {
		return
	}
	if max == 0 {
		vsymAssert(arr.Size() == n, "array-has-declared-size")
	}
	ok := true
	for _, e := range arr.msgs {
		if e == nil {
			ok = false
		}
	}
	vsymAssert(ok, "no-absent-element")
	vsymCover("end")
}
