package proto

func init() {
	vsymHarnesses["HarnessC06Bytes"] = HarnessC06Bytes
}

// HarnessC06Bytes: every byte string of length L fed to the parser; Next() must terminate without
// panic, without attacker-sized allocation, and never return an array with an absent element.
func HarnessC06Bytes() {
	L := vsymParamInt("L", 4)
	in := vsymBytes("in", L)
	vsymUnwind(4*L + 24)
	p := NewParserWithBytes(in)
	for i := 0; i <= L; i++ {
		msg, err := p.Next()
		if err != nil {
			vsymCover("error")
			break
		}
		if msg == nil {
			vsymCover("eos")
			break
		}
		vsymCover("value")
		c06NoAbsent(msg)
	}
	vsymCover("end")
}

func c06NoAbsent(msg *Message) {
	if msg.Type != ArrayMessage {
		return
	}
	vsymCover("array")
	vsymAssert(msg.array != nil, "array-present")
	if msg.array == nil {
		return
	}
	for _, e := range msg.array.msgs {
		vsymAssert(e != nil, "no-absent-element")
		if e != nil {
			c06NoAbsent(e)
		}
	}
}
