package proto

func init() {
	vsymHarnesses["HarnessC01Tree"] = HarnessC01Tree
	vsymHarnesses["HarnessC01Bulk"] = HarnessC01Bulk
	vsymHarnesses["HarnessC01Wide"] = HarnessC01Wide
}

// HarnessC01Tree: serialise any value tree, compare with the reference encoding, parse it back,
// compare structure, check nothing is left, re-serialise and compare with the input bytes.
func HarnessC01Tree() {
	depth := vsymParamInt("depth", 1)
	arity := vsymParamInt("arity", 2)
	payload := vsymParamInt("payload", 2)
	vsymUnwind(64)
	n := refGen(depth, arity, payload)
	msg := refBuild(n)
	enc, err := msg.RESPBytes()
	vsymAssert(err == nil, "serialise-no-error")
	want := refEncode(n)
	vsymAssert(refBytesEq(enc, want), "encoding-equals-reference")
	p := NewParserWithBytes(want)
	got, err := p.Next()
	vsymAssert(err == nil, "parse-no-error")
	vsymAssert(got != nil, "parse-yields-value")
	if err != nil || got == nil {
		return
	}
	vsymCover("parsed")
	vsymAssert(refSame(got, n), "parsed-equals-original")
	rest, err := p.Next()
	vsymAssert(err == nil && rest == nil, "nothing-left-after-value")
	re, err := got.RESPBytes()
	vsymAssert(err == nil, "reserialise-no-error")
	vsymAssert(refBytesEq(re, want), "reserialise-reproduces-input")
	if n.typ == 4 {
		vsymCover("array")
	}
	if n.typ == 3 && n.null {
		vsymCover("null-bulk")
	}
	if n.typ == 3 && !n.null && len(n.payload) == 0 {
		vsymCover("empty-bulk")
	}
	vsymCover("end")
}

// HarnessC01Bulk: one bulk string of concrete length n with unconstrained bytes survives
// encode -> decode unchanged and its length prefix is decimal(n).
func HarnessC01Bulk() {
	n := vsymParamInt("n", 10)
	vsymUnwind(n + 64)
	in := vsymBytes("payload", n)
	node := &refNode{typ: 3, payload: in}
	msg := NewMessageWithType(BulkMessage).SetBytes(append([]byte{}, in...))
	enc, err := msg.RESPBytes()
	vsymAssert(err == nil, "serialise-no-error")
	want := refEncode(node)
	vsymAssert(refBytesEq(enc, want), "encoding-equals-reference")
	got, err := NewParserWithBytes(enc).Next()
	vsymAssert(err == nil && got != nil, "parse-ok")
	if err != nil || got == nil {
		return
	}
	vsymAssert(got.Type == BulkMessage && !got.IsNil(), "bulk-type")
	out, _ := got.Bytes()
	vsymAssert(refBytesEq(out, in), "payload-binary-safe")
	vsymCover("end")
}

// HarnessC01Wide: an array of n elements of mixed types (three of them with symbolic payload, the
// rest concrete) is serialised with the right element count, parses back to the same n values in
// order and re-serialises to the same bytes; a second, nested copy follows it in the same stream.
func HarnessC01Wide() {
	n := vsymParamInt("n", 100)
	vsymUnwind(16*n + 256)
	mk := func(i int) *refNode {
		switch i % 4 {
		case 0:
			return &refNode{typ: 3, payload: []byte{byte('a' + i%26), byte('0' + i%10)}}
		case 1:
			return &refNode{typ: 2, payload: refItoa(i)}
		case 2:
			return &refNode{typ: 0, payload: []byte{'s', byte('a' + i%26)}}
		}
		return &refNode{typ: 3, null: true}
	}
	root := &refNode{typ: 4}
	for i := 0; i < n; i++ {
		root.kids = append(root.kids, mk(i))
	}
	if n > 0 {
		// symbolic payloads at the first, a middle and the last position
		for _, i := range []int{0, n / 2, n - 1} {
			root.kids[i] = &refNode{typ: 3, payload: vsymBytes("elem", 2)}
		}
	}
	outer := &refNode{typ: 4, kids: []*refNode{root, {typ: 2, payload: []byte("7")}}}
	for _, node := range []*refNode{root, outer} {
		msg := refBuild(node)
		enc, err := msg.RESPBytes()
		vsymAssert(err == nil, "serialise-no-error")
		want := refEncode(node)
		vsymAssert(refBytesEq(enc, want), "encoding-equals-reference")
		p := NewParserWithBytes(want)
		got, err := p.Next()
		vsymAssert(err == nil && got != nil, "parse-ok")
		if err != nil || got == nil {
			return
		}
		vsymAssert(refSame(got, node), "parsed-equals-original")
		rest, err := p.Next()
		vsymAssert(err == nil && rest == nil, "nothing-left-after-value")
		re, err := got.RESPBytes()
		vsymAssert(err == nil && refBytesEq(re, want), "reserialise-reproduces-input")
	}
	vsymCover("end")
}
