package proto

func init() {
	vsymHarnesses["HarnessC01Tree"] = HarnessC01Tree
	vsymHarnesses["HarnessC01Bulk"] = HarnessC01Bulk
}

// HarnessC01Tree: serialise any value tree, compare with the reference encoding, parse it back,
// compare structure, check nothing is left, re-serialise and compare with the input bytes.
func HarnessC01Tree() {
	depth := vsymParamInt("depth", 1)
	arity := vsymParamInt("arity", 2)
	payload := vsymParamInt("payload", 2)
	vsymUnwind(64)
	n := refGen(depth, arity, payload)
	msg := refBuild(n)
	enc, err := msg.RESPBytes()
	vsymAssert(err == nil, "serialise-no-error")
	want := refEncode(n)
	vsymAssert(refBytesEq(enc, want), "encoding-equals-reference")
	p := NewParserWithBytes(want)
	got, err := p.Next()
	vsymAssert(err == nil, "parse-no-error")
	vsymAssert(got != nil, "parse-yields-value")
	if err != nil || got == nil {
		return
	}
	vsymCover("parsed")
	vsymAssert(refSame(got, n), "parsed-equals-original")
	rest, err := p.Next()
	vsymAssert(err == nil && rest == nil, "nothing-left-after-value")
	re, err := got.RESPBytes()
	vsymAssert(err == nil, "reserialise-no-error")
	vsymAssert(refBytesEq(re, want), "reserialise-reproduces-input")
	if n.typ == 4 {
		vsymCover("array")
	}
	if n.typ == 3 && n.null {
		vsymCover("null-bulk")
	}
	if n.typ == 3 && !n.null && len(n.payload) == 0 {
		vsymCover("empty-bulk")
	}
	vsymCover("end")
}

// HarnessC01Bulk: one bulk string of concrete length n with unconstrained bytes survives
// encode -> decode unchanged and its length prefix is decimal(n).
func HarnessC01Bulk() {
	n := vsymParamInt("n", 10)
	vsymUnwind(n + 64)
	in := vsymBytes("payload", n)
	node := &refNode{typ: 3, payload: in}
	msg := NewMessageWithType(BulkMessage).SetBytes(append([]byte{}, in...))
	enc, err := msg.RESPBytes()
	vsymAssert(err == nil, "serialise-no-error")
	want := refEncode(node)
	vsymAssert(refBytesEq(enc, want), "encoding-equals-reference")
	got, err := NewParserWithBytes(enc).Next()
	vsymAssert(err == nil && got != nil, "parse-ok")
	if err != nil || got == nil {
		return
	}
	vsymAssert(got.Type == BulkMessage && !got.IsNil(), "bulk-type")
	out, _ := got.Bytes()
	vsymAssert(refBytesEq(out, in), "payload-binary-safe")
	vsymCover("end")
}
