package proto

import "io"

func init() {
	vsymHarnesses["HarnessC02Chunks"] = HarnessC02Chunks
}

// chunkReader delivers a byte stream in read sizes chosen by the environment: each Read returns
// min(len(p), remaining, c) bytes for a fresh symbolic c >= 1, then io.EOF.
type chunkReader struct {
	data  []byte
	pos   int
	reads int
	partial bool
}

func (r *chunkReader) Read(p []byte) (int, error) {
	if r.pos >= len(r.data) {
		return 0, io.EOF
	}
	if len(p) == 0 {
		return 0, nil
	}
	r.reads++
	max := len(r.data) - r.pos
	if len(p) < max {
		max = len(p)
	}
	k := 1
	if max > 1 {
		// the transport decides how many bytes arrive: any 1..max
		k = 1 + vsymChoice("chunk", max)
		if k < max {
			r.partial = true
		}
	}
	copy(p, r.data[r.pos:r.pos+k])
	r.pos += k
	return k, nil
}

// HarnessC02Chunks: a concatenation of encoded values delivered in arbitrary read sizes is parsed
// into exactly those values, each consuming exactly its own bytes, then end of stream.
func HarnessC02Chunks() {
	count := vsymParamInt("values", 2)
	depth := vsymParamInt("depth", 1)
	arity := vsymParamInt("arity", 2)
	payload := vsymParamInt("payload", 2)
	vsymUnwind(96)
	var nodes []*refNode
	var stream []byte
	var ends []int
	for i := 0; i < count; i++ {
		n := refGen(depth, arity, payload)
		nodes = append(nodes, n)
		stream = append(stream, refEncode(n)...)
		ends = append(ends, len(stream))
	}
	r := &chunkReader{data: stream}
	p := NewParserWithReader(r)
	for i, n := range nodes {
		got, err := p.Next()
		vsymAssert(err == nil, "no-error")
		vsymAssert(got != nil, "value-present")
		if err != nil || got == nil {
			return
		}
		vsymAssert(refSame(got, n), "value-equals-sent")
		vsymAssert(r.pos == ends[i], "consumes-exactly-own-bytes")
	}
	rest, err := p.Next()
	vsymAssert(err == nil && rest == nil, "clean-end-of-stream")
	if r.partial {
		vsymCover("partial-bulk-read")
	}
	vsymCover("end")
}
