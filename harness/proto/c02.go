package proto

import "io"

func init() {
	vsymHarnesses["HarnessC02Chunks"] = HarnessC02Chunks
	vsymHarnesses["HarnessC02Big"] = HarnessC02Big
}

// bigReader delivers a long stream greedily (as much as the caller's buffer takes) except for one
// segment boundary at offset split (0 = none): the read that would cross it stops there.
type bigReader struct {
	data  []byte
	pos   int
	split int
}

func (r *bigReader) Read(p []byte) (int, error) {
	if r.pos >= len(r.data) {
		return 0, io.EOF
	}
	if len(p) == 0 {
		return 0, nil
	}
	k := len(r.data) - r.pos
	if len(p) < k {
		k = len(p)
	}
	if r.split > 0 && r.pos < r.split && r.pos+k > r.split {
		k = r.split - r.pos
	}
	copy(p, r.data[r.pos:r.pos+k])
	r.pos += k
	return k, nil
}

// refBig builds a bulk node of n bytes: symbolic first and last byte, concrete filler.
func refBig(n int) *refNode {
	pl := make([]byte, n)
	for i := range pl {
		pl[i] = byte('a' + i%23)
	}
	if n > 0 {
		pl[0] = vsymByte("first")
		pl[n-1] = vsymByte("last")
	}
	return &refNode{typ: 3, payload: pl}
}

// refLine draws a line-type node (status, error or integer text) of exactly l symbolic bytes.
func refLine(typ, l int) *refNode {
	n := &refNode{typ: typ, payload: vsymBytes("line", l)}
	for _, b := range n.payload {
		vsymAssume(b != '\r')
		vsymAssume(b != '\n')
	}
	return n
}

// HarnessC02Big: a long stream (a bulk string of n bytes between short values of every type, then
// a request-like array) delivered greedily with one segment boundary at any of the interesting
// offsets: every value comes back intact, in order, and stays intact while the parser reads on.
func HarnessC02Big() {
	n := vsymParamInt("n", 5000)
	vsymUnwind(n + 64)
	nodes := []*refNode{
		refLine(0, 2),
		{typ: 4, kids: []*refNode{refLine(1, 2), refBig(n), refLine(2, 1)}},
		refLine(0, 1),
		{typ: 4, kids: []*refNode{{typ: 3, payload: []byte("PING")}}},
		refLine(2, 1),
	}
	var stream []byte
	var ends []int
	for _, nd := range nodes {
		stream = append(stream, refEncode(nd)...)
		ends = append(ends, len(stream))
	}
	r := &bigReader{data: stream}
	switch vsymChoice("split", 7) {
	case 0: // one segment
	case 1:
		r.split = ends[0]
	case 2:
		r.split = ends[1] - 1 // between the CR and LF that end the array's last element
	case 3:
		r.split = ends[1]
	case 4:
		r.split = ends[1] + 1
	case 5:
		r.split = ends[0] + 12 + vsymChoice("inbulk", 3)*(n/2) // inside the array header / the bulk body
	case 6:
		r.split = 1
	}
	p := NewParserWithReader(r)
	var gots []*Message
	for i, nd := range nodes {
		got, err := p.Next()
		vsymAssert(err == nil && got != nil, "value-present")
		if err != nil || got == nil {
			return
		}
		vsymAssert(refSame(got, nd), "value-equals-sent")
		vsymAssert(r.pos >= ends[i], "value-returned-only-after-its-last-byte-arrived")
		gots = append(gots, got)
	}
	rest, err := p.Next()
	vsymAssert(err == nil && rest == nil, "clean-end-of-stream")
	for i, nd := range nodes {
		vsymAssert(refSame(gots[i], nd), "value-unchanged-by-later-reads")
		re, err := gots[i].RESPBytes()
		vsymAssert(err == nil && refBytesEq(re, refEncode(nd)), "reserialise-reproduces-input")
	}
	vsymCover("end")
}

// chunkReader delivers a byte stream in read sizes chosen by the environment: each Read returns
// min(len(p), remaining, c) bytes for a fresh symbolic c >= 1, then io.EOF.
type chunkReader struct {
	data  []byte
	pos   int
	reads int
	partial bool
}

func (r *chunkReader) Read(p []byte) (int, error) {
	if r.pos >= len(r.data) {
		return 0, io.EOF
	}
	if len(p) == 0 {
		return 0, nil
	}
	r.reads++
	max := len(r.data) - r.pos
	if len(p) < max {
		max = len(p)
	}
	k := 1
	if max > 1 {
		// the transport decides how many bytes arrive: any 1..max
		k = 1 + vsymChoice("chunk", max)
		if k < max {
			r.partial = true
		}
	}
	copy(p, r.data[r.pos:r.pos+k])
	r.pos += k
	return k, nil
}

// HarnessC02Chunks: a concatenation of encoded values delivered in arbitrary read sizes is parsed
// into exactly those values, each consuming exactly its own bytes, then end of stream.
func HarnessC02Chunks() {
	count := vsymParamInt("values", 2)
	depth := vsymParamInt("depth", 1)
	arity := vsymParamInt("arity", 2)
	payload := vsymParamInt("payload", 2)
	vsymUnwind(96)
	var nodes []*refNode
	var stream []byte
	var ends []int
	for i := 0; i < count; i++ {
		n := refGen(depth, arity, payload)
		nodes = append(nodes, n)
		stream = append(stream, refEncode(n)...)
		ends = append(ends, len(stream))
	}
	r := &chunkReader{data: stream}
	p := NewParserWithReader(r)
	var gots []*Message
	for i, n := range nodes {
		got, err := p.Next()
		vsymAssert(err == nil, "no-error")
		vsymAssert(got != nil, "value-present")
		if err != nil || got == nil {
			return
		}
		vsymAssert(refSame(got, n), "value-equals-sent")
		// the transport position may run ahead of the value (a buffering parser is allowed); it can never lag behind it
		vsymAssert(r.pos >= ends[i], "value-returned-only-after-its-last-byte-arrived")
		gots = append(gots, got)
	}
	rest, err := p.Next()
	vsymAssert(err == nil && rest == nil, "clean-end-of-stream")
	vsymAssert(r.pos == len(stream), "whole-stream-consumed-at-end")
	// values handed out earlier are still what was sent after the parser has read on
	for i, n := range nodes {
		vsymAssert(refSame(gots[i], n), "value-unchanged-by-later-reads")
	}
	if r.partial {
		vsymCover("partial-bulk-read")
	}
	vsymCover("end")
}
