package server

var vsymHarnesses = map[string]func(){}
