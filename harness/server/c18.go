package server

import (
	"math"

	"github.com/cybergarage/go-redis/redis"
)

func init() {
	vsymHarnesses["HarnessC18Step"] = HarnessC18Step
}

var c18Scores = []string{"1", "2", "3", "0", "1.5", "2.5", "4"}
var c18ScoreVals = []float64{1, 2, 3, 0, 1.5, 2.5, 4}

// HarnessC18Step: one command against the example store in a symbolic pre-state that satisfies the
// representation invariant; reply and post-state must equal the Redis model; the invariant is preserved.
// One inductive step speaks for single-client programs of any length.
func HarnessC18Step() {
	cmd := vsymParam("cmd")
	vsymTag("cmd", cmd)
	vsymUnwind(600)
	maxE := vsymParamInt("maxelems", 2)
	s := NewServer()
	m := &rmodel{}
	mDraw(s, m, "a", maxE, 6)
	mDraw(s, m, "b", 1, vsymParamInt("btypes", 2)) // second key: absent or a string (quick), any type (thorough)
	B := func(x string) []byte { return []byte(x) }
	keyName := func(label string) string { return []string{"a", "b", "c"}[vsymChoice(label, 3)] }
	var args [][]byte
	var want rval
	k1 := keyName("key")
	k := m.get(k1)
	need := func(t int) {
		// each key is used with one data type: skip combinations that would mix types
		vsymAssume(k.typ == tNone || k.typ == t)
	}
	sym := func(name string) string { return vsymString(name, 1) }
	switch cmd {
	case "SET":
		need(tStr)
		v := vsymString("val", vsymLen("vlen", 2))
		args = [][]byte{B("SET"), B(k1), B(v)}
		k.typ, k.str = tStr, v
		want = rStatus("OK")
	case "GET":
		need(tStr)
		args = [][]byte{B("GET"), B(k1)}
		if k.typ == tStr {
			want = rBulk(k.str)
		} else {
			want = rNil()
		}
	case "GETSET":
		need(tStr)
		v := sym("val")
		args = [][]byte{B("GETSET"), B(k1), B(v)}
		if k.typ == tStr {
			want = rBulk(k.str)
		} else {
			want = rNil()
		}
		k.typ, k.str = tStr, v
	case "SETNX":
		need(tStr)
		v := sym("val")
		args = [][]byte{B("SETNX"), B(k1), B(v)}
		if k.typ == tNone {
			k.typ, k.str = tStr, v
			want = rInt(1)
		} else {
			want = rInt(0)
		}
	case "APPEND":
		need(tStr)
		v := vsymString("val", vsymLen("vlen", 2))
		args = [][]byte{B("APPEND"), B(k1), B(v)}
		if k.typ == tNone {
			k.typ, k.str = tStr, ""
		}
		k.str += v
		want = rInt(len(k.str))
	case "STRLEN":
		need(tStr)
		args = [][]byte{B("STRLEN"), B(k1)}
		want = rInt(len(k.str))
	case "MSET":
		k2n := keyName("key2")
		k2 := m.get(k2n)
		vsymAssume((k.typ == tNone || k.typ == tStr) && (k2.typ == tNone || k2.typ == tStr))
		v1, v2 := sym("v1"), sym("v2")
		args = [][]byte{B("MSET"), B(k1), B(v1), B(k2n), B(v2)}
		k.typ, k.str = tStr, v1
		k2.typ, k2.str = tStr, v2
		want = rStatus("OK")
	case "MGET":
		k2n := keyName("key2")
		k2 := m.get(k2n)
		vsymAssume((k.typ == tNone || k.typ == tStr) && (k2.typ == tNone || k2.typ == tStr))
		args = [][]byte{B("MGET"), B(k1), B(k2n)}
		var items []string
		for _, kk := range []*mkey{k, k2} {
			if kk.typ == tStr {
				items = append(items, kk.str)
			} else {
				items = append(items, "\x00<nil>")
			}
		}
		want = rArr(items)
	case "DEL":
		k2n := keyName("key2")
		k2 := m.get(k2n)
		args = [][]byte{B("DEL"), B(k1), B(k2n)}
		n := 0
		if k.typ != tNone {
			n++
			*k = mkey{}
		}
		if k2.typ != tNone {
			n++
			*k2 = mkey{}
		}
		want = rInt(n)
	case "EXISTS":
		k2n := keyName("key2")
		k2 := m.get(k2n)
		args = [][]byte{B("EXISTS"), B(k1), B(k2n)}
		n := 0
		if k.typ != tNone {
			n++
		}
		if k2.typ != tNone {
			n++
		}
		want = rInt(n)
	case "TYPE":
		args = [][]byte{B("TYPE"), B(k1)}
		want = rStatus([]string{"none", "string", "list", "set", "zset", "hash"}[k.typ])
	case "RENAME", "RENAMENX":
		k2n := keyName("key2")
		k2 := m.get(k2n)
		args = [][]byte{B(cmd), B(k1), B(k2n)}
		switch {
		case k.typ == tNone:
			want = rErr()
		case cmd == "RENAMENX" && k2.typ != tNone:
			want = rInt(0)
		default:
			if k1 != k2n {
				*k2 = *k
				*k = mkey{}
			}
			if cmd == "RENAME" {
				want = rStatus("OK")
			} else {
				want = rInt(1)
			}
		}
	case "KEYS":
		args = [][]byte{B("KEYS"), B("*")}
		var items []string
		for i, n := range m.names {
			if m.keys[i].typ != tNone {
				items = append(items, n)
			}
		}
		want = rUArr(items)
	case "HSET":
		need(tHash)
		f, v := sym("f"), sym("v")
		args = [][]byte{B("HSET"), B(k1), B(f), B(v)}
		k.typ = tHash
		if i := idx(k.hf, f); i >= 0 {
			k.hv[i] = v
			want = rInt(0)
		} else {
			k.hf, k.hv = append(k.hf, f), append(k.hv, v)
			want = rInt(1)
		}
	case "HGET":
		need(tHash)
		f := sym("f")
		args = [][]byte{B("HGET"), B(k1), B(f)}
		if i := idx(k.hf, f); i >= 0 {
			want = rBulk(k.hv[i])
		} else {
			want = rNil()
		}
	case "HDEL":
		need(tHash)
		f := sym("f")
		args = [][]byte{B("HDEL"), B(k1), B(f)}
		if i := idx(k.hf, f); i >= 0 {
			k.hf, k.hv = remove(k.hf, i), remove(k.hv, i)
			k.clearIfEmpty()
			want = rInt(1)
		} else {
			want = rInt(0)
		}
	case "HLEN":
		need(tHash)
		args = [][]byte{B("HLEN"), B(k1)}
		want = rInt(len(k.hf))
	case "HGETALL":
		need(tHash)
		args = [][]byte{B("HGETALL"), B(k1)}
		var items []string
		for i := range k.hf {
			items = append(items, k.hf[i]+"\x01"+k.hv[i])
		}
		want = rUArr(items)
	case "LPUSH", "RPUSH":
		need(tList)
		e1, e2 := sym("e1"), sym("e2")
		args = [][]byte{B(cmd), B(k1), B(e1), B(e2)}
		k.typ = tList
		if cmd == "LPUSH" {
			k.list = append([]string{e2, e1}, k.list...)
		} else {
			k.list = append(k.list, e1, e2)
		}
		want = rInt(len(k.list))
	case "LPOP", "RPOP":
		need(tList)
		args = [][]byte{B(cmd), B(k1)}
		if len(k.list) == 0 {
			want = rNil()
		} else if cmd == "LPOP" {
			want = rBulk(k.list[0])
			k.list = k.list[1:]
		} else {
			want = rBulk(k.list[len(k.list)-1])
			k.list = k.list[:len(k.list)-1]
		}
		k.clearIfEmpty()
	case "LPOPN", "RPOPN":
		need(tList)
		cnt := 2 + vsymChoice("count", 2)
		args = [][]byte{B(cmd[:4]), B(k1), redis.VsymItoa(cnt)}
		if len(k.list) == 0 {
			want = rNil()
		} else {
			var items []string
			for i := 0; i < cnt && len(k.list) > 0; i++ {
				if cmd == "LPOPN" {
					items = append(items, k.list[0])
					k.list = k.list[1:]
				} else {
					items = append(items, k.list[len(k.list)-1])
					k.list = k.list[:len(k.list)-1]
				}
			}
			want = rArr(items)
		}
		k.clearIfEmpty()
	case "LRANGE":
		need(tList)
		st, en := vsymChoice("start", 7)-3, vsymChoice("stop", 7)-3
		args = [][]byte{B("LRANGE"), B(k1), redis.VsymItoa(st), redis.VsymItoa(en)}
		var items []string
		if a, b, ok := clampRange(st, en, len(k.list)); ok {
			items = append(items, k.list[a:b+1]...)
		}
		want = rArr(items)
	case "LINDEX":
		need(tList)
		i := vsymChoice("index", 7) - 3
		args = [][]byte{B("LINDEX"), B(k1), redis.VsymItoa(i)}
		j := i
		if j < 0 {
			j += len(k.list)
		}
		if j >= 0 && j < len(k.list) {
			want = rBulk(k.list[j])
		} else {
			want = rNil()
		}
	case "LLEN":
		need(tList)
		args = [][]byte{B("LLEN"), B(k1)}
		want = rInt(len(k.list))
	case "SADD":
		need(tSet)
		e1, e2 := sym("e1"), sym("e2")
		args = [][]byte{B("SADD"), B(k1), B(e1), B(e2)}
		k.typ = tSet
		n := 0
		for _, e := range []string{e1, e2} {
			if idx(k.set, e) < 0 {
				k.set = append(k.set, e)
				n++
			}
		}
		want = rInt(n)
	case "SREM":
		need(tSet)
		e1, e2 := sym("e1"), sym("e2")
		args = [][]byte{B("SREM"), B(k1), B(e1), B(e2)}
		n := 0
		for _, e := range []string{e1, e2} {
			if i := idx(k.set, e); i >= 0 {
				k.set = remove(k.set, i)
				n++
			}
		}
		k.clearIfEmpty()
		want = rInt(n)
	case "SMEMBERS":
		need(tSet)
		args = [][]byte{B("SMEMBERS"), B(k1)}
		want = rUArr(k.set)
	case "SCARD":
		need(tSet)
		args = [][]byte{B("SCARD"), B(k1)}
		want = rInt(len(k.set))
	case "SISMEMBER":
		need(tSet)
		e := sym("e")
		args = [][]byte{B("SISMEMBER"), B(k1), B(e)}
		want = rInt(0)
		if idx(k.set, e) >= 0 {
			want = rInt(1)
		}
	case "ZADD":
		need(tZSet)
		si := vsymChoice("score", len(c18Scores))
		mem := sym("member")
		args = [][]byte{B("ZADD"), B(k1), B(c18Scores[si]), B(mem)}
		n := 0
		k.typ = tZSet
		if k.zinsert(mem, c18ScoreVals[si]) {
			n++
		}
		if vsymChoice("two", 2) == 1 {
			sj := vsymChoice("score2", len(c18Scores))
			mem2 := sym("member2")
			args = append(args, B(c18Scores[sj]), B(mem2))
			if k.zinsert(mem2, c18ScoreVals[sj]) {
				n++
			}
		}
		want = rInt(n)
	case "ZREM":
		need(tZSet)
		mem := sym("member")
		args = [][]byte{B("ZREM"), B(k1), B(mem)}
		if i := idx(k.zm, mem); i >= 0 {
			k.zm = remove(k.zm, i)
			zs := append([]float64{}, k.zs[:i]...)
			k.zs = append(zs, k.zs[i+1:]...)
			k.clearIfEmpty()
			want = rInt(1)
		} else {
			want = rInt(0)
		}
	case "ZSCORE":
		need(tZSet)
		mem := sym("member")
		args = [][]byte{B("ZSCORE"), B(k1), B(mem)}
		if i := idx(k.zm, mem); i >= 0 {
			want = rBulk(fmtScore(k.zs[i]))
		} else {
			want = rNil()
		}
	case "ZCARD":
		need(tZSet)
		args = [][]byte{B("ZCARD"), B(k1)}
		want = rInt(len(k.zm))
	case "ZINCRBY":
		need(tZSet)
		si := vsymChoice("inc", len(c18Scores))
		mem := sym("member")
		args = [][]byte{B("ZINCRBY"), B(k1), B(c18Scores[si]), B(mem)}
		ns := c18ScoreVals[si]
		if i := idx(k.zm, mem); i >= 0 {
			ns += k.zs[i]
		}
		k.typ = tZSet
		k.zinsert(mem, ns)
		want = rBulk(fmtScore(ns))
	case "ZRANGE":
		need(tZSet)
		st, en := vsymChoice("start", 7)-3, vsymChoice("stop", 7)-3
		ws := vsymChoice("withscores", 2) == 1
		args = [][]byte{B("ZRANGE"), B(k1), redis.VsymItoa(st), redis.VsymItoa(en)}
		if ws {
			args = append(args, B("WITHSCORES"))
		}
		var items []string
		if a, b, ok := clampRange(st, en, len(k.zm)); ok {
			for i := a; i <= b; i++ {
				items = append(items, k.zm[i])
				if ws {
					items = append(items, fmtScore(k.zs[i]))
				}
			}
		}
		want = rArr(items)
	case "ZRANGEREV":
		// ZRANGE ... REV over the whole set (for partial windows the example store's index semantics is a documented deviation)
		need(tZSet)
		ws := vsymChoice("withscores", 2) == 1
		args = [][]byte{B("ZRANGE"), B(k1), B("0"), B("-1"), B("REV")}
		if ws {
			args = append(args, B("WITHSCORES"))
		}
		var items []string
		for i := len(k.zm) - 1; i >= 0; i-- {
			items = append(items, k.zm[i])
			if ws {
				items = append(items, fmtScore(k.zs[i]))
			}
		}
		want = rArr(items)
	case "ZRANGEBYSCORE":
		need(tZSet)
		bounds := []string{"0", "1", "2", "3", "(1", "(2", "-inf", "+inf", "1.5"}
		bv := []float64{0, 1, 2, 3, 1, 2, math.Inf(-1), math.Inf(1), 1.5}
		bx := []bool{false, false, false, false, true, true, false, false, false}
		ia, ib := vsymChoice("min", len(bounds)), vsymChoice("max", len(bounds))
		args = [][]byte{B("ZRANGEBYSCORE"), B(k1), B(bounds[ia]), B(bounds[ib])}
		off, cnt := 0, -1
		if vsymChoice("limit", 2) == 1 {
			off, cnt = vsymChoice("offset", 3), vsymChoice("lcount", 4)-1
			args = append(args, B("LIMIT"), redis.VsymItoa(off), redis.VsymItoa(cnt))
		}
		var sel []string
		for i := range k.zm {
			sc := k.zs[i]
			if sc < bv[ia] || (bx[ia] && sc == bv[ia]) || sc > bv[ib] || (bx[ib] && sc == bv[ib]) {
				continue
			}
			sel = append(sel, k.zm[i])
		}
		if off > len(sel) {
			off = len(sel)
		}
		sel = sel[off:]
		if cnt >= 0 && cnt < len(sel) {
			sel = sel[:cnt]
		}
		want = rArr(sel)
	default:
		vsymCover("not-in-model")
		return
	}
	conn := redis.VsymNewConn(redis.VsymReq(args...))
	redis.VsymServe(s.Server, conn)
	out := conn.Out()
	got, ok := decodeReply(out)
	vsymAssert(ok, "reply-is-one-well-formed-value")
	if !ok {
		return
	}
	if cmd == "HGETALL" && got.kind == '*' {
		// pair up field/value for unordered comparison
		var pairs []string
		for i := 0; i+1 < len(got.items); i += 2 {
			pairs = append(pairs, got.items[i]+"\x01"+got.items[i+1])
		}
		vsymAssert(len(got.items)%2 == 0, "hgetall-lists-pairs")
		got.items = pairs
	}
	vsymAssert(sameReply(got, want), "reply-equals-redis-model")
	vsymAssert(sameState(s, m), "store-equals-redis-model-afterwards")
	vsymCover("end")
}
