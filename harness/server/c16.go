package server

import (
	"time"

	"github.com/cybergarage/go-redis/redis"
)

func init() {
	vsymHarnesses["HarnessC16Store"] = HarnessC16Store
	vsymHarnesses["HarnessC16Coll"] = HarnessC16Coll
}

// HarnessC16Store: two clients, one command each, against the bundled example store; the engine
// interleaves them at the store's sync.Map operations. Replies and final store must equal a sequential order.
func HarnessC16Store() {
	a, b := vsymParam("a"), vsymParam("b")
	vsymTag("pair", a+"+"+b)
	vsymTag("store", "example")
	vsymSchedBound(vsymParamInt("preempt", 2))
	vsymSchedKinds("syncmap,go,sharedwrite,lock")
	vsymUnwind(400)
	s := NewServer()
	db, _ := s.GetDatabase(0)
	k, hasK := "", false
	switch vsymChoice("initial", 3) {
	case 1:
		k, hasK = "5", true
	case 2:
		k, hasK = "x", true
	}
	if hasK {
		db.SetRecord(&Record{Key: "k", Data: k, Timestamp: time.Now()})
	}
	init := redis.VsymC16State(k, hasK, "", false)
	ca, cb := redis.VsymNewConn(redis.VsymC16Request(a)), redis.VsymNewConn(redis.VsymC16Request(b))
	done := make([]bool, 2)
	go func() {
		redis.VsymServe(s.Server, ca)
		vsymSignal(&done[0])
	}()
	go func() {
		redis.VsymServe(s.Server, cb)
		vsymSignal(&done[1])
	}()
	vsymAwait(&done[0])
	vsymAwait(&done[1])
	fk, fhasK, fj, fhasJ := "", false, "", false
	if r, ok := db.GetRecord("k"); ok {
		fk, _ = r.Data.(string)
		fhasK = true
	}
	if r, ok := db.GetRecord("j"); ok {
		fj, _ = r.Data.(string)
		fhasJ = true
	}
	final := redis.VsymC16State(fk, fhasK, fj, fhasJ)
	ra1, s1 := redis.VsymC16Apply(init, a)
	rb1, s1 := redis.VsymC16Apply(s1, b)
	rb2, s2 := redis.VsymC16Apply(init, b)
	ra2, s2 := redis.VsymC16Apply(s2, a)
	errA := len(ca.Out()) > 0 && ca.Out()[0] == '-'
	errB := len(cb.Out()) > 0 && cb.Out()[0] == '-'
	same := func(got, want []byte, isErr bool) bool {
		if len(want) > 0 && want[0] == '-' {
			return isErr
		}
		return redis.VsymBytesEq(got, want)
	}
	ab := same(ca.Out(), ra1, errA) && same(cb.Out(), rb1, errB) && final == s1
	ba := same(ca.Out(), ra2, errA) && same(cb.Out(), rb2, errB) && final == s2
	vsymAssert(ab || ba, "history-equals-a-sequential-order")
	vsymCover("end")
}

// ---- collection commands of the example store ----

// c16cstate is the sequential model state for the collection pairs: one list l, one hash h, one set s, one sorted set z.
type c16cstate struct {
	l  string // list elements, one byte each, head first
	hf string // hash fields (one byte each), hv values aligned
	hv string
	s  string // set members (one byte each, no duplicates, insertion order irrelevant)
	z  string // zset members ascending by score; scores are the digits in zs
	zs string
}

var c16CollRequests = map[string][]string{
	"LPUSHa": {"LPUSH", "l", "a"}, "LPUSHb": {"LPUSH", "l", "b"}, "RPUSHc": {"RPUSH", "l", "c"}, "LPOP": {"LPOP", "l"}, "RPOP": {"RPOP", "l"}, "LLEN": {"LLEN", "l"},
	"HSETf": {"HSET", "h", "f", "1"}, "HSETg": {"HSET", "h", "g", "2"}, "HSETf2": {"HSET", "h", "f", "3"}, "HDELf": {"HDEL", "h", "f"}, "HLEN": {"HLEN", "h"}, "HGETf": {"HGET", "h", "f"},
	"SADDa": {"SADD", "s", "a"}, "SADDb": {"SADD", "s", "b"}, "SREMa": {"SREM", "s", "a"}, "SCARD": {"SCARD", "s"},
	"ZADD1a": {"ZADD", "z", "1", "a"}, "ZADD2b": {"ZADD", "z", "2", "b"}, "ZADD3a": {"ZADD", "z", "3", "a"}, "ZREMa": {"ZREM", "z", "a"}, "ZCARD": {"ZCARD", "z"},
}

func c16Int(n int) []byte { return append(append([]byte{':'}, redis.VsymItoa(n)...), '\r', '\n') }
func c16Bulk(s string) []byte {
	return append(append(append(append([]byte{'$'}, redis.VsymItoa(len(s))...), '\r', '\n'), s...), '\r', '\n')
}

func c16Index(s string, b byte) int {
	for i := 0; i < len(s); i++ {
		if s[i] == b {
			return i
		}
	}
	return -1
}

func c16Cut(s string, i int) string { return s[:i] + s[i+1:] }

// c16CollApply: Redis semantics of one collection command on the model state.
func c16CollApply(st c16cstate, cmd string) ([]byte, c16cstate) {
	a := c16CollRequests[cmd]
	switch a[0] {
	case "LPUSH":
		st.l = a[2] + st.l
		return c16Int(len(st.l)), st
	case "RPUSH":
		st.l = st.l + a[2]
		return c16Int(len(st.l)), st
	case "LPOP":
		if len(st.l) == 0 {
			return []byte("$-1\r\n"), st
		}
		v := st.l[:1]
		st.l = st.l[1:]
		return c16Bulk(v), st
	case "RPOP":
		if len(st.l) == 0 {
			return []byte("$-1\r\n"), st
		}
		v := st.l[len(st.l)-1:]
		st.l = st.l[:len(st.l)-1]
		return c16Bulk(v), st
	case "LLEN":
		return c16Int(len(st.l)), st
	case "HSET":
		if i := c16Index(st.hf, a[2][0]); i >= 0 {
			st.hv = st.hv[:i] + a[3] + st.hv[i+1:]
			return c16Int(0), st
		}
		st.hf, st.hv = st.hf+a[2], st.hv+a[3]
		return c16Int(1), st
	case "HDEL":
		if i := c16Index(st.hf, a[2][0]); i >= 0 {
			st.hf, st.hv = c16Cut(st.hf, i), c16Cut(st.hv, i)
			return c16Int(1), st
		}
		return c16Int(0), st
	case "HLEN":
		return c16Int(len(st.hf)), st
	case "HGET":
		if i := c16Index(st.hf, a[2][0]); i >= 0 {
			return c16Bulk(st.hv[i : i+1]), st
		}
		return []byte("$-1\r\n"), st
	case "SADD":
		if c16Index(st.s, a[2][0]) >= 0 {
			return c16Int(0), st
		}
		st.s += a[2]
		return c16Int(1), st
	case "SREM":
		if i := c16Index(st.s, a[2][0]); i >= 0 {
			st.s = c16Cut(st.s, i)
			return c16Int(1), st
		}
		return c16Int(0), st
	case "SCARD":
		return c16Int(len(st.s)), st
	case "ZADD":
		added := 1
		if i := c16Index(st.z, a[3][0]); i >= 0 {
			st.z, st.zs = c16Cut(st.z, i), c16Cut(st.zs, i)
			added = 0
		}
		// insert by score, ties by member
		pos := len(st.z)
		for i := 0; i < len(st.z); i++ {
			if st.zs[i] > a[2][0] || (st.zs[i] == a[2][0] && st.z[i] > a[3][0]) {
				pos = i
				break
			}
		}
		st.z = st.z[:pos] + a[3] + st.z[pos:]
		st.zs = st.zs[:pos] + a[2] + st.zs[pos:]
		return c16Int(added), st
	case "ZREM":
		if i := c16Index(st.z, a[2][0]); i >= 0 {
			st.z, st.zs = c16Cut(st.z, i), c16Cut(st.zs, i)
			return c16Int(1), st
		}
		return c16Int(0), st
	case "ZCARD":
		return c16Int(len(st.z)), st
	}
	return nil, st
}

// c16CollFinal reads the collections back from the example store into a model state (canonical member order for the set and the hash).
func c16CollFinal(s *Server) c16cstate {
	db, _ := s.GetDatabase(0)
	var st c16cstate
	if r, ok := db.GetRecord("l"); ok {
		if l, isL := r.Data.(*List); isL {
			for _, e := range l.elements {
				st.l += e
			}
		}
	}
	if r, ok := db.GetRecord("h"); ok {
		if h, isH := r.Data.(Hash); isH {
			for _, f := range []string{"f", "g"} {
				if v, has := h[f]; has {
					st.hf += f
					st.hv += v
				}
			}
		}
	}
	if r, ok := db.GetRecord("s"); ok {
		if set, isS := r.Data.(*Set); isS {
			for _, m := range []string{"a", "b"} {
				for _, x := range set.members {
					if x == m {
						st.s += m
					}
				}
			}
		}
	}
	if r, ok := db.GetRecord("z"); ok {
		if z, isZ := r.Data.(*ZSet); isZ {
			for _, m := range z.members {
				st.z += m.Member
				st.zs += string(rune('0' + int(m.Score)))
			}
		}
	}
	return st
}

func c16Canon(st c16cstate) c16cstate {
	// set members and hash fields in canonical order (f before g, a before b)
	if st.s == "ba" {
		st.s = "ab"
	}
	if st.hf == "gf" {
		st.hf, st.hv = "fg", st.hv[1:]+st.hv[:1]
	}
	return st
}

// HarnessC16Coll: two clients, one collection command each, on the same list / hash / set / sorted
// set of the example store (initially empty or holding one element). Replies and final contents
// must equal one of the two sequential orders.
func HarnessC16Coll() {
	a, b := vsymParam("a"), vsymParam("b")
	vsymTag("pair", a+"+"+b)
	vsymTag("store", "example-collections")
	vsymSchedBound(vsymParamInt("preempt", 2))
	vsymSchedKinds("syncmap,go,sharedwrite,lock")
	vsymUnwind(400)
	s := NewServer()
	var init c16cstate
	if vsymChoice("initial", 2) == 1 {
		// every collection starts with one element (built through the store's own commands, sequentially)
		for _, c := range []string{"RPUSHc", "HSETg", "SADDb", "ZADD2b"} {
			conn := redis.VsymNewConn(redis.VsymReqS(c16CollRequests[c]...))
			redis.VsymServe(s.Server, conn)
			_, init = c16CollApply(init, c)
		}
	}
	ca, cb := redis.VsymNewConn(redis.VsymReqS(c16CollRequests[a]...)), redis.VsymNewConn(redis.VsymReqS(c16CollRequests[b]...))
	done := make([]bool, 2)
	go func() {
		redis.VsymServe(s.Server, ca)
		vsymSignal(&done[0])
	}()
	go func() {
		redis.VsymServe(s.Server, cb)
		vsymSignal(&done[1])
	}()
	vsymAwait(&done[0])
	vsymAwait(&done[1])
	final := c16Canon(c16CollFinal(s))
	ra1, s1 := c16CollApply(init, a)
	rb1, s1 := c16CollApply(s1, b)
	rb2, s2 := c16CollApply(init, b)
	ra2, s2 := c16CollApply(s2, a)
	ab := redis.VsymBytesEq(ca.Out(), ra1) && redis.VsymBytesEq(cb.Out(), rb1) && final == c16Canon(s1)
	ba := redis.VsymBytesEq(ca.Out(), ra2) && redis.VsymBytesEq(cb.Out(), rb2) && final == c16Canon(s2)
	vsymAssert(ab || ba, "history-equals-a-sequential-order")
	vsymCover("end")
}
