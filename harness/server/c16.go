package server

import (
	"time"

	"github.com/cybergarage/go-redis/redis"
)

func init() {
	vsymHarnesses["HarnessC16Store"] = HarnessC16Store
}

// HarnessC16Store: two clients, one command each, against the bundled example store; the engine
// interleaves them at the store's sync.Map operations. Replies and final store must equal a sequential order.
func HarnessC16Store() {
	a, b := vsymParam("a"), vsymParam("b")
	vsymTag("pair", a+"+"+b)
	vsymTag("store", "example")
	vsymSchedBound(vsymParamInt("preempt", 2))
	vsymSchedKinds("syncmap,go,sharedwrite")
	vsymUnwind(400)
	s := NewServer()
	db, _ := s.GetDatabase(0)
	k, hasK := "", false
	switch vsymChoice("initial", 3) {
	case 1:
		k, hasK = "5", true
	case 2:
		k, hasK = "x", true
	}
	if hasK {
		db.SetRecord(&Record{Key: "k", Data: k, Timestamp: time.Now()})
	}
	init := redis.VsymC16State(k, hasK, "", false)
	ca, cb := redis.VsymNewConn(redis.VsymC16Request(a)), redis.VsymNewConn(redis.VsymC16Request(b))
	done := make([]bool, 2)
	go func() {
		redis.VsymServe(s.Server, ca)
		vsymSignal(&done[0])
	}()
	go func() {
		redis.VsymServe(s.Server, cb)
		vsymSignal(&done[1])
	}()
	vsymAwait(&done[0])
	vsymAwait(&done[1])
	fk, fhasK, fj, fhasJ := "", false, "", false
	if r, ok := db.GetRecord("k"); ok {
		fk, _ = r.Data.(string)
		fhasK = true
	}
	if r, ok := db.GetRecord("j"); ok {
		fj, _ = r.Data.(string)
		fhasJ = true
	}
	final := redis.VsymC16State(fk, fhasK, fj, fhasJ)
	ra1, s1 := redis.VsymC16Apply(init, a)
	rb1, s1 := redis.VsymC16Apply(s1, b)
	rb2, s2 := redis.VsymC16Apply(init, b)
	ra2, s2 := redis.VsymC16Apply(s2, a)
	errA := len(ca.Out()) > 0 && ca.Out()[0] == '-'
	errB := len(cb.Out()) > 0 && cb.Out()[0] == '-'
	same := func(got, want []byte, isErr bool) bool {
		if len(want) > 0 && want[0] == '-' {
			return isErr
		}
		return redis.VsymBytesEq(got, want)
	}
	ab := same(ca.Out(), ra1, errA) && same(cb.Out(), rb1, errB) && final == s1
	ba := same(ca.Out(), ra2, errA) && same(cb.Out(), rb2, errB) && final == s2
	vsymAssert(ab || ba, "history-equals-a-sequential-order")
	vsymCover("end")
}
