package server

import (
	"time"

	"github.com/cybergarage/go-redis/redis"
)

func init() {
	vsymHarnesses["HarnessC04Store"] = HarnessC04Store
	vsymHarnesses["HarnessC07Store"] = HarnessC07Store
}

var vScores = []float64{1, 2, 3, 1.5, -1}

// vsPreState stores, under key, one of: nothing, a string, a list, a set, a sorted set, a hash
// (containers of 0..max elements, element bytes symbolic). Returns the type tag.
func vsPreState(s *Server, key string, max int) int {
	db, _ := s.GetDatabase(0)
	t := vsymChoice("pretype", 6)
	rec := &Record{Key: key, Timestamp: time.Now(), TTL: 0}
	switch t {
	case 0:
		return 0
	case 1:
		rec.Data = vsymString("strval", vsymLen("strlen", max))
	case 2:
		l := NewList()
		n := vsymLen("listlen", max)
		for i := 0; i < n; i++ {
			l.elements = append(l.elements, vsymString("elem", 1))
		}
		rec.Data = l
	case 3:
		set := NewSet()
		n := vsymLen("setlen", max)
		for i := 0; i < n; i++ {
			m := vsymString("member", 1)
			for _, o := range set.members {
				vsymAssume(o != m)
			}
			set.members = append(set.members, m)
		}
		rec.Data = set
	case 4:
		z := NewZSet()
		n := vsymLen("zlen", max)
		for i := 0; i < n; i++ {
			m := vsymString("zmember", 1)
			for _, o := range z.members {
				vsymAssume(o.Member != m)
			}
			// scores ascending (the representation invariant of the store)
			z.members = append(z.members, &ZSetMember{Score: float64(i + 1), Member: m})
		}
		rec.Data = z
	case 5:
		h := Hash{}
		n := vsymLen("hlen", max)
		for i := 0; i < n; i++ {
			f := vsymString("field", 1)
			for o := range h {
				vsymAssume(o != f)
			}
			h[f] = vsymString("hval", 1)
		}
		rec.Data = h
	}
	db.SetRecord(rec)
	return t
}

// HarnessC04Store: values with arbitrary bytes stored in the example server come back in a
// well-formed reply stream, byte for byte.
func HarnessC04Store() {
	ml := vsymParamInt("maxlen", 2)
	vsymUnwind(256)
	s := NewServer()
	val := vsymBytes("value", vsymLen("vlen", ml))
	var in []byte
	var want []byte
	if vsymChoice("kind", 2) == 0 {
		vsymCover("get")
		in = append(in, redis.VsymReq([]byte("SET"), []byte("k"), val)...)
		in = append(in, redis.VsymReqS("GET", "k")...)
		want = append([]byte("+OK\r\n"), redis.VsymBulk(val)...)
	} else {
		vsymCover("hget")
		in = append(in, redis.VsymReq([]byte("HSET"), []byte("h"), []byte("f"), val)...)
		in = append(in, redis.VsymReqS("HGET", "h", "f")...)
		want = append([]byte(":1\r\n"), redis.VsymBulk(val)...)
	}
	conn := redis.VsymNewConn(in)
	redis.VsymServe(s.Server, conn)
	_, ok := redis.VsymStrictStream(conn.Out())
	vsymAssert(ok, "reply-stream-well-formed")
	vsymAssert(redis.VsymBytesEq(conn.Out(), want), "stored-value-returned-byte-for-byte")
	vsymCover("end")
}

// HarnessC07Store: one request of the given command against the example store in a symbolic
// pre-state, with boundary / symbolic arguments. Nothing may panic or loop on an attacker-chosen count.
func HarnessC07Store() {
	cmd := vsymParam("cmd")
	vsymTag("cmd", cmd)
	vsymUnwind(vsymParamInt("unwind", 300))
	s := NewServer()
	vsPreState(s, "k", vsymParamInt("maxelems", 3))
	args := [][]byte{[]byte(cmd)}
	n := vsymLen("nargs", vsymParamInt("maxargs", 4))
	bi := redis.VsymBoundaryInts()
	for i := 0; i < n; i++ {
		switch vsymChoice("argkind", 4) {
		case 0:
			args = append(args, []byte("k"))
		case 1:
			args = append(args, []byte(bi[vsymChoice("boundary", len(bi))]))
		case 2:
			args = append(args, vsymBytes("arg", vsymLen("arglen", 2)))
		case 3:
			kws := []string{"LIMIT", "WITHSCORES", "BYSCORE", "REV", "MATCH", "COUNT", "(1", "-inf", "+inf"}
			args = append(args, []byte(kws[vsymChoice("kw", len(kws))]))
		}
	}
	in := redis.VsymReq(args...)
	in = append(in, redis.VsymReqS("PING")...)
	conn := redis.VsymNewConn(in)
	redis.VsymServe(s.Server, conn)
	_, ok := redis.VsymStrictStream(conn.Out())
	vsymAssert(ok, "reply-stream-well-formed")
	vsymAssert(conn.IsClosed(), "connection-closed-at-end")
	vsymCover("end")
}

func init() {
	vsymHarnesses["HarnessC07Index"] = HarnessC07Index
}

// vIntToken: a boundary integer, or a signed decimal of 1-2 symbolic digits (so -99..99 and junk-free).
func vIntToken() []byte {
	bi := redis.VsymBoundaryInts()
	if vsymParamInt("fewbounds", 0) == 1 {
		bi = []string{"0", "-1", "2147483648", "9223372036854775807", "-9223372036854775808", "9223372036854775808"}
	}
	if vsymChoice("intkind", 2) == 0 {
		return []byte(bi[vsymChoice("boundary", len(bi))])
	}
	var out []byte
	if vsymChoice("neg", 2) == 1 {
		out = append(out, '-')
	}
	n := 1 + vsymChoice("ndigits", vsymParamInt("maxdigits", 2))
	for i := 0; i < n; i++ {
		d := vsymByte("digit")
		vsymAssume(d >= '0' && d <= '9')
		out = append(out, d)
	}
	return out
}

var vIndexTemplates = map[string][]string{
	"LRANGE":           {"LRANGE", "k", "<i>", "<i>"},
	"LINDEX":           {"LINDEX", "k", "<i>"},
	"LPOP":             {"LPOP", "k", "<i>"},
	"RPOP":             {"RPOP", "k", "<i>"},
	"GETRANGE":         {"GETRANGE", "k", "<i>", "<i>"},
	"SUBSTR":           {"SUBSTR", "k", "<i>", "<i>"},
	"ZRANGE":           {"ZRANGE", "k", "<i>", "<i>"},
	"ZRANGE-REV":       {"ZRANGE", "k", "<i>", "<i>", "REV", "WITHSCORES"},
	"ZRANGE-LIMIT":     {"ZRANGE", "k", "0", "-1", "LIMIT", "<i>", "<i>"},
	"ZRANGE-BYSCORE":   {"ZRANGE", "k", "<i>", "<i>", "BYSCORE", "LIMIT", "<i>", "<i>"},
	"ZREVRANGE":        {"ZREVRANGE", "k", "<i>", "<i>", "WITHSCORES"},
	"ZRANGEBYSCORE":    {"ZRANGEBYSCORE", "k", "<i>", "<i>", "LIMIT", "<i>", "<i>"},
	"ZREVRANGEBYSCORE": {"ZREVRANGEBYSCORE", "k", "<i>", "<i>", "WITHSCORES", "LIMIT", "<i>", "<i>"},
	// quick variants: the score bounds come from three tokens, the LIMIT operands from the full integer alphabet
	"ZRANGE-BYSCORE-Q":   {"ZRANGE", "k", "<s>", "<s>", "BYSCORE", "LIMIT", "<i>", "<i>"},
	"ZRANGEBYSCORE-Q":    {"ZRANGEBYSCORE", "k", "<s>", "<s>", "LIMIT", "<i>", "<i>"},
	"ZREVRANGEBYSCORE-Q": {"ZREVRANGEBYSCORE", "k", "<s>", "<s>", "WITHSCORES", "LIMIT", "<i>", "<i>"},
	"SCAN":             {"SCAN", "<i>", "COUNT", "<i>"},
	"SETEX":            {"SETEX", "k", "<i>", "v"},
	"EXPIRE":           {"EXPIRE", "k", "<i>"},
	"INCRBY":           {"INCRBY", "k", "<i>"},
	"DECRBY":           {"DECRBY", "k", "<i>"},
	"SELECT":           {"SELECT", "<i>"},
}

// HarnessC07Index: index / count / limit arithmetic of the example store and the derived commands
// with boundary and symbolic integers against every small pre-state.
func HarnessC07Index() {
	name := vsymParam("tmpl")
	vsymTag("tmpl", name)
	vsymUnwind(vsymParamInt("unwind", 300))
	s := NewServer()
	vsPreState(s, "k", vsymParamInt("maxelems", 3))
	var args [][]byte
	for _, a := range vIndexTemplates[name] {
		if a == "<i>" {
			args = append(args, vIntToken())
		} else if a == "<s>" {
			args = append(args, []byte([]string{"0", "2", "-1"}[vsymChoice("score", 3)]))
		} else {
			args = append(args, []byte(a))
		}
	}
	in := redis.VsymReq(args...)
	in = append(in, redis.VsymReqS("PING")...)
	conn := redis.VsymNewConn(in)
	redis.VsymServe(s.Server, conn)
	ends, ok := redis.VsymStrictStream(conn.Out())
	vsymAssert(ok, "reply-stream-well-formed")
	vsymAssert(ok && len(ends) == 2, "both-requests-answered")
	vsymCover("end")
}
