package server

import (
	"strconv"
	"time"

	"github.com/cybergarage/go-redis/redis"
)

// Executable Redis reference model over an abstract state of two keys, and the machinery to put
// the example store into a symbolic pre-state that satisfies its representation invariant.

const (
	tNone = iota
	tStr
	tList
	tSet
	tZSet
	tHash
)

type mkey struct {
	typ  int
	str  string
	list []string
	set  []string  // no duplicates
	zm   []string  // ascending by (score, member), one entry per member
	zs   []float64
	hf   []string // no duplicate fields
	hv   []string
}

type rmodel struct {
	names []string
	keys  []*mkey
}

func (m *rmodel) get(name string) *mkey {
	for i, n := range m.names {
		if n == name {
			return m.keys[i]
		}
	}
	k := &mkey{}
	m.names = append(m.names, name)
	m.keys = append(m.keys, k)
	return k
}

// reply values
type rval struct {
	kind      byte // '+' status, '-' error, ':' integer, '$' bulk, 'n' null bulk, '*' array
	s         string
	i         int
	items     []string
	unordered bool
}

func rStatus(s string) rval  { return rval{kind: '+', s: s} }
func rInt(i int) rval        { return rval{kind: ':', i: i} }
func rBulk(s string) rval    { return rval{kind: '$', s: s} }
func rNil() rval             { return rval{kind: 'n'} }
func rErr() rval             { return rval{kind: '-'} }
func rArr(it []string) rval  { return rval{kind: '*', items: it} }
func rUArr(it []string) rval { return rval{kind: '*', items: it, unordered: true} }

// mDraw builds, for one key, a symbolic value of a drawn type in the store and in the model.
func mDraw(s *Server, m *rmodel, name string, maxElems int, types int) {
	db, _ := s.GetDatabase(0)
	k := m.get(name)
	t := vsymChoice("type:"+name, types)
	k.typ = t
	rec := &Record{Key: name, Timestamp: time.Now()}
	switch t {
	case tNone:
		return
	case tStr:
		k.str = vsymString("str", vsymLen("strlen", 2))
		rec.Data = k.str
	case tList:
		l := NewList()
		n := 1 + vsymChoice("listlen", maxElems)
		for i := 0; i < n; i++ {
			e := vsymString("elem", 1)
			l.elements = append(l.elements, e)
			k.list = append(k.list, e)
		}
		rec.Data = l
	case tSet:
		set := NewSet()
		n := 1 + vsymChoice("setlen", maxElems)
		for i := 0; i < n; i++ {
			e := vsymString("member", 1)
			for _, o := range set.members {
				vsymAssume(o != e)
			}
			set.members = append(set.members, e)
			k.set = append(k.set, e)
		}
		rec.Data = set
	case tZSet:
		z := NewZSet()
		n := 1 + vsymChoice("zlen", maxElems)
		for i := 0; i < n; i++ {
			e := vsymString("zmember", 1)
			for _, o := range z.members {
				vsymAssume(o.Member != e)
			}
			sc := float64(i + 1)
			z.members = append(z.members, &ZSetMember{Score: sc, Member: e})
			k.zm = append(k.zm, e)
			k.zs = append(k.zs, sc)
		}
		rec.Data = z
	case tHash:
		h := Hash{}
		n := 1 + vsymChoice("hlen", maxElems)
		for i := 0; i < n; i++ {
			f := vsymString("field", 1)
			for _, o := range k.hf {
				vsymAssume(o != f)
			}
			v := vsymString("hval", 1)
			h[f] = v
			k.hf = append(k.hf, f)
			k.hv = append(k.hv, v)
		}
		rec.Data = h
	}
	db.SetRecord(rec)
}

func idx(l []string, s string) int {
	for i, x := range l {
		if x == s {
			return i
		}
	}
	return -1
}

func remove(l []string, i int) []string {
	out := append([]string{}, l[:i]...)
	return append(out, l[i+1:]...)
}

func (k *mkey) clearIfEmpty() {
	switch k.typ {
	case tList:
		if len(k.list) == 0 {
			k.typ = tNone
		}
	case tSet:
		if len(k.set) == 0 {
			k.typ = tNone
		}
	case tZSet:
		if len(k.zm) == 0 {
			k.typ = tNone
		}
	case tHash:
		if len(k.hf) == 0 {
			k.typ = tNone
		}
	}
}

// zinsert places (member, score) in (score, member) order after removing any old entry; reports whether it was new.
func (k *mkey) zinsert(member string, score float64) bool {
	isNew := true
	if i := idx(k.zm, member); i >= 0 {
		k.zm = remove(k.zm, i)
		zs := append([]float64{}, k.zs[:i]...)
		k.zs = append(zs, k.zs[i+1:]...)
		isNew = false
	}
	pos := len(k.zm)
	for i := range k.zm {
		if score < k.zs[i] || (score == k.zs[i] && member < k.zm[i]) {
			pos = i
			break
		}
	}
	zm := append([]string{}, k.zm[:pos]...)
	zm = append(zm, member)
	k.zm = append(zm, k.zm[pos:]...)
	zs := append([]float64{}, k.zs[:pos]...)
	zs = append(zs, score)
	k.zs = append(zs, k.zs[pos:]...)
	return isNew
}

func clampRange(start, stop, n int) (int, int, bool) {
	if start < 0 {
		start += n
	}
	if stop < 0 {
		stop += n
	}
	if start < 0 {
		start = 0
	}
	if start > stop || start >= n {
		return 0, 0, false
	}
	if stop >= n {
		stop = n - 1
	}
	return start, stop, true
}

func fmtScore(f float64) string { return strconv.FormatFloat(f, 'g', -1, 64) }

// decodeReply parses one RESP reply (concrete framing, symbolic payloads) into an rval; ok=false if malformed.
func decodeReply(b []byte) (rval, bool) {
	if len(b) < 3 {
		return rval{}, false
	}
	line := func(pos int) (string, int) {
		for i := pos; i+1 < len(b); i++ {
			if b[i] == '\r' && b[i+1] == '\n' {
				return string(b[pos:i]), i + 2
			}
		}
		return "", -1
	}
	bulk := func(pos int) (string, bool, int) {
		// pos at '$'
		ls, next := line(pos + 1)
		if next < 0 {
			return "", false, -1
		}
		n, err := strconv.Atoi(ls)
		if err != nil {
			return "", false, -1
		}
		if n < 0 {
			return "", true, next
		}
		if next+n+2 > len(b) {
			return "", false, -1
		}
		return string(b[next : next+n]), false, next + n + 2
	}
	switch b[0] {
	case '+', '-':
		s, next := line(1)
		if next != len(b) {
			return rval{}, false
		}
		return rval{kind: b[0], s: s}, true
	case ':':
		s, next := line(1)
		if next != len(b) {
			return rval{}, false
		}
		n, err := strconv.Atoi(s)
		if err != nil {
			return rval{}, false
		}
		return rInt(n), true
	case '$':
		s, null, next := bulk(0)
		if next != len(b) {
			return rval{}, false
		}
		if null {
			return rNil(), true
		}
		return rBulk(s), true
	case '*':
		ls, pos := line(1)
		if pos < 0 {
			return rval{}, false
		}
		n, err := strconv.Atoi(ls)
		if err != nil || n < 0 {
			return rval{}, false
		}
		r := rval{kind: '*'}
		for i := 0; i < n; i++ {
			if pos >= len(b) || b[pos] != '$' {
				return rval{}, false
			}
			s, null, next := bulk(pos)
			if next < 0 {
				return rval{}, false
			}
			if null {
				s = "\x00<nil>"
			}
			r.items = append(r.items, s)
			pos = next
		}
		if pos != len(b) {
			return rval{}, false
		}
		return r, true
	}
	return rval{}, false
}

func sameMultiset(a, b []string) bool {
	if len(a) != len(b) {
		return false
	}
	used := make([]bool, len(b))
	for _, x := range a {
		found := false
		for j, y := range b {
			if !used[j] && !found && x == y {
				used[j] = true
				found = true
			}
		}
		if !found {
			return false
		}
	}
	return true
}

func sameReply(got, want rval) bool {
	if got.kind != want.kind {
		return false
	}
	switch want.kind {
	case '+', '$':
		return got.s == want.s
	case '-':
		return true // error texts are not part of the claim
	case ':':
		return got.i == want.i
	case 'n':
		return true
	case '*':
		if want.unordered {
			return sameMultiset(got.items, want.items)
		}
		if len(got.items) != len(want.items) {
			return false
		}
		for i := range got.items {
			if got.items[i] != want.items[i] {
				return false
			}
		}
		return true
	}
	return false
}

// abstraction of the store: does key name hold exactly what the model says?
func sameState(s *Server, m *rmodel) bool {
	db, _ := s.GetDatabase(0)
	for i, name := range m.names {
		k := m.keys[i]
		rec, ok := db.GetRecord(name)
		if k.typ == tNone {
			if ok {
				return false
			}
			continue
		}
		if !ok {
			return false
		}
		// representation invariant: a record carries the name it is stored under (SetRecord stores by that field)
		if rec.Key != name {
			return false
		}
		switch k.typ {
		case tStr:
			v, isStr := rec.Data.(string)
			if !isStr || v != k.str {
				return false
			}
		case tList:
			l, isL := rec.Data.(*List)
			if !isL || len(l.elements) != len(k.list) {
				return false
			}
			for j := range k.list {
				if l.elements[j] != k.list[j] {
					return false
				}
			}
		case tSet:
			st, isS := rec.Data.(*Set)
			if !isS || !sameMultiset(st.members, k.set) {
				return false
			}
		case tZSet:
			z, isZ := rec.Data.(*ZSet)
			if !isZ || len(z.members) != len(k.zm) {
				return false
			}
			for j := range k.zm {
				if z.members[j].Member != k.zm[j] || z.members[j].Score != k.zs[j] {
					return false
				}
			}
		case tHash:
			h, isH := rec.Data.(Hash)
			if !isH || len(h) != len(k.hf) {
				return false
			}
			for j, f := range k.hf {
				v, has := h[f]
				if !has || v != k.hv[j] {
					return false
				}
			}
		}
	}
	// no key beyond the model's
	for _, key := range db.Keys() {
		if idx(m.names, key) < 0 {
			return false
		}
	}
	return true
}

var _ = redis.DefaultPort
