package server

import (
	"bufio"
	"fmt"
	"os"
	"sort"
	"strconv"
	"strings"

	"github.com/cybergarage/go-redis/redis"
)

func init() {
	vsymHarnesses["ProbeC17Keys"] = ProbeC17Keys
}

// ProbeC17Keys (native only): against a store populated with every key of length 1..2 over
// {a, b, ., +, newline}, the keys selected by KEYS p and by SCAN 0 MATCH p COUNT 100000, per pattern.
func ProbeC17Keys() {
	in, err := os.Open(os.Getenv("VSYM_C17_IN"))
	if err != nil {
		panic(err)
	}
	defer in.Close()
	out, err := os.Create(os.Getenv("VSYM_C17_OUT"))
	if err != nil {
		panic(err)
	}
	defer out.Close()
	w := bufio.NewWriter(out)
	defer w.Flush()
	s := NewServer()
	alpha := []string{"a", "b", ".", "+", "\n"}
	var keys []string
	for _, x := range alpha {
		keys = append(keys, x)
		for _, y := range alpha {
			keys = append(keys, x+y)
		}
	}
	var setup []byte
	for _, k := range keys {
		setup = append(setup, redis.VsymReqS("SET", k, "v")...)
	}
	redis.VsymServe(s.Server, redis.VsymNewConn(setup))
	run := func(args ...string) string {
		c := redis.VsymNewConn(redis.VsymReqS(args...))
		redis.VsymServe(s.Server, c)
		return string(c.Out())
	}
	bulks := func(reply string) []string {
		// collect bulk string payloads of a (possibly nested) array reply
		var res []string
		i := 0
		for i < len(reply) {
			switch reply[i] {
			case '$':
				j := strings.Index(reply[i:], "\r\n")
				n, _ := strconv.Atoi(reply[i+1 : i+j])
				if n < 0 {
					i += j + 2
					continue
				}
				start := i + j + 2
				res = append(res, reply[start:start+n])
				i = start + n + 2
			default:
				j := strings.Index(reply[i:], "\r\n")
				if j < 0 {
					return res
				}
				i += j + 2
			}
		}
		return res
	}
	sc := bufio.NewScanner(in)
	for sc.Scan() {
		p, err := strconv.Unquote(sc.Text())
		if err != nil {
			continue
		}
		kr := run("KEYS", p)
		sr := run("SCAN", "0", "MATCH", p, "COUNT", "100000")
		k := bulks(kr)
		sall := bulks(sr)
		if len(sall) > 0 {
			sall = sall[1:] // first bulk is the cursor
		}
		sort.Strings(k)
		sort.Strings(sall)
		kerr, serr := strings.HasPrefix(kr, "-"), strings.HasPrefix(sr, "-")
		fmt.Fprintf(w, "%s\t%v\t%s\t%v\t%s\n", strconv.Quote(p), kerr, strconv.Quote(strings.Join(k, "\x00")), serr, strconv.Quote(strings.Join(sall, "\x00")))
	}
}
